#!/bin/bash
# tools/mut.sh <patch.diff> <ID>...   apply a patch to /repo, run quick checks, revert.
patch="$1"; shift
if ! git -C /repo diff --quiet; then echo "/repo has uncommitted changes"; exit 2; fi
git -C /repo apply "$patch" || { echo "patch does not apply"; exit 2; }
export VERIF_EVIDENCE_DIR=$(mktemp -d /dev/shm/mut-evidence.XXXXXX)
for id in "$@"; do
  out=$(cd /verif && ./check "$id" --tier "${TIER:-quick}" 2>&1); rc=$?
  echo "== $id exit=$rc $(echo "$out" | grep -c '^VIOLATION') VIOLATION line(s)"
  echo "$out" | grep -E "unlisted|^VIOLATION|HARNESS" | head -5
done
rm -rf "$VERIF_EVIDENCE_DIR"
git -C /repo checkout -- . ; git -C /repo status --short | head -3
