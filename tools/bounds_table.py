#!/usr/bin/env python3
"""tools/bounds_table.py QUICK_LOG THOROUGH_LOG - prints the markdown table of DESIGN §9 from the
summary lines the checks print ('Cxx tier=... evaluations=... states=... transitions=... wall=...s')."""
import re
import sys


def parse(path):
    out = {}
    for line in open(path, errors="replace"):
        m = re.match(r"(C\d\d) tier=(\w+) seed=\d+ (.*)", line.strip())
        if not m:
            continue
        kv = dict(x.split("=", 1) for x in m.group(3).split() if "=" in x)
        out[m.group(1)] = kv
    return out


def cell(kv):
    if not kv:
        return "—"
    parts = [f"{int(kv['evaluations']):,} evaluations"]
    if "states" in kv:
        parts.append(f"{int(kv['states']):,} states")
    if "transitions" in kv:
        parts.append(f"{int(kv['transitions']):,} transitions")
    parts.append(f"{int(kv['outcomes']):,} distinct outcomes")
    parts.append(f"{float(kv['wall'].rstrip('s')):.0f} s")
    return ", ".join(parts)


def main():
    q, t = parse(sys.argv[1]), parse(sys.argv[2])
    print("| ID | quick | thorough |")
    print("|----|-------|----------|")
    for i in range(1, 19):
        c = f"C{i:02d}"
        print(f"| {c} | {cell(q.get(c))} | {cell(t.get(c))} |")


if __name__ == "__main__":
    main()
