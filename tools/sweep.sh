#!/bin/bash
# tools/sweep.sh [seeds…]   (default: 1 2 3)
# Runs every check's quick tier for each VERIF_SEED with evidence redirected (the committed
# evidence is the seed-0 run); prints one line per check and a final verdict.
cd "$(dirname "$0")/.."
seeds=${@:-1 2 3}
bad=0
for s in $seeds; do
  ev=$(mktemp -d -p /dev/shm sweep-ev-XXXX)
  for i in 01 02 03 04 05 06 07 08 09 10 11 12 13 14 15 16 17 18; do
    out=$(VERIF_SEED=$s VERIF_EVIDENCE_DIR=$ev ./check C$i --tier quick 2>&1); rc=$?
    echo "seed=$s rc=$rc $(echo "$out" | grep -v '^KNOWN' | tail -1 | cut -c1-160)"
    [ $rc -ne 0 ] && bad=1 && echo "$out" | grep -v '^KNOWN' | tail -5 | cut -c1-600
  done
  rm -rf "$ev"
done
[ $bad -eq 0 ] && echo "SWEEP clean" || echo "SWEEP NOT clean"
exit $bad
