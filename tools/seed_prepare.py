#!/usr/bin/env python3
"""tools/seed_prepare.py [IDs…] — makes one scratch worktree of /repo HEAD per property under
/tmp/wt/<ID>, holding seed/PROPERTY.json (the property's text, nothing else from /verif) and
seed/ALREADY_USED.md (one line per mechanism already used by an earlier seeded change for that
property, so that the next agent looks for a different one)."""
import json
import subprocess
import sys
from pathlib import Path

VERIF = Path(__file__).resolve().parents[1]


def main():
    props = {json.loads(l)["id"]: json.loads(l) for l in (VERIF / "properties.jsonl").read_text().splitlines() if l.strip()}
    ids = sys.argv[1:] or sorted(props)
    Path("/tmp/wt").mkdir(exist_ok=True)
    for pid in ids:
        wt = Path("/tmp/wt") / pid
        subprocess.run(["git", "-C", "/repo", "worktree", "remove", "--force", str(wt)], capture_output=True)
        r = subprocess.run(["git", "-C", "/repo", "worktree", "add", "--detach", str(wt), "HEAD", "-q"], capture_output=True, text=True)
        if r.returncode:
            raise SystemExit(r.stderr)
        (wt / "seed").mkdir()
        (wt / "seed" / "PROPERTY.json").write_text(json.dumps(props[pid], indent=1) + "\n")
        used = []
        for d in sorted((VERIF / "seeded").glob(f"{pid}-w*")):
            m = d / "meta.json"
            if m.exists():
                j = json.loads(m.read_text())
                used.append(f"* {j.get('summary', '').strip()}  (files: {', '.join(j.get('files_changed', []))})")
        (wt / "seed" / "ALREADY_USED.md").write_text(
            "# Mechanisms already used for this property - pick a clearly different one\n\n" + "\n".join(used) + "\n")
        print(pid, len(used), "earlier mechanisms")


if __name__ == "__main__":
    main()
