#!/usr/bin/env python3
"""Regenerates /verif/MANIFEST.json from the table below (keeps it valid while
checks are added one by one). Run: python3 tools/gen_manifest.py"""
import json
from pathlib import Path

VERIF = Path(__file__).resolve().parents[1]

# id -> (level, technique, text, note, design_ref)
CHECKS = {
    "C01": (
        "model_checking",
        "exhaustive small-scope enumeration of abstract pages (traces of a line-event scope machine) replayed against the real compiler",
        "Every abstract single-item page over 16 kind/priority forms x 4 identity forms x bodies of 1..N words from a 10-word alphabet made of prefix look-alikes x 5 tail shapes (incl. a blank-only continuation line), every ordered pair of 24 word forms (tags, link kinds, properties, inline properties, quoted / parenthesised words, URL, punctuation) as a body, items with two blanks after the prefix, and every ordered pair (quick) / pair and triple (thorough) of a 24-item reduced alphabet in 7 layouts (incl. a page whose body opens with an H2 section) plus a 120-item page whose section with a child is followed by a sibling, is rendered, compiled by walk_zorg_page and compared field by field (kind, priority, body, line, ZID, create and modify date, section path, block, count, order - both of the section tree and of Page.notes) with the notes the abstract page denotes. All traces of the model within the bound are replayed on the implementation, so there is no model/code gap inside the bound.",
        "Trusts the reference model mc/models/zo_model.py and the vetted alphabets; generated parser as committed; larger pages / other words only by the small-scope hypothesis.",
        "§4 C01",
    ),
    "C02": (
        "model_checking",
        "exhaustive enumeration of all legal section skeletons x decorated-scope subsets, replayed against the real compiler and judged by a scope-stack model",
        "All legal H1-H4 header sequences up to 5 (quick) / 6 (thorough) headers, times every subset of {title, headers} carrying scope-unique tag, link, shared-key property and date, with always-decorated later header line and in-block comments, are compiled; every note's tags, links, properties, date and section path must equal the scope-stack model's. A leak or a lost inheritance at any nesting shape within the bound is found, not sampled.",
        "One decoration pattern per scope (placement enumerated exhaustively, spelling fixed per seed); trusts mc/models/zo_model.py.",
        "§4 C02",
    ),
    "C03": (
        "exploration",
        "exhaustive small-scope enumeration of filter programs x designed indexes on the real compiler + SQL repository, judged by an independent set-algebra evaluator over raw rows",
        "Every atom of a 197-atom alphabet (file globs incl. page names that begin with the letters of the f= prefix) alone on three indexes (plus nine filters on a 600-note index in which 520 notes match a negated case-sensitive text filter) and on sub-indexes of a six-note pool, every ordered pair under AND and OR (quick: over a third of the atoms), and every expression shape with up to 3 (thorough: 4) leaves and paren depth 2 over core alphabets is compiled by build_zorg_query and executed by SQLRepo.get_notes_by_query on an index built by the real db create; the returned ZID set (and absence of duplicates) must equal the set computed by mc/models/query_model.holds_* over the rows read back with sqlite3. Single atoms also go through the CLI.",
        "Index contents are designed corpora plus sub-indexes of a pool, not all indexes; typed comparisons only on consistently typed keys; lower-case page names.",
        "§4 C03",
    ),
    "C04": (
        "exploration",
        "exhaustive small-scope enumeration of abstract queries rendered to text and compiled by the real query compiler, compared structurally with the denoted Query",
        "All select forms, every single atom (all 64 priority-range spellings, every operator/negation/quote/case form, values that mix digits and underscores), every expression shape up to 3 leaves and paren depth 2, every ^/$ date form (short incl. two-digit years on both sides of strptime's %y pivot, d/m/y relative, negative, ranges) on 7 frozen calendar-edge days resolved by hand-written month arithmetic, every relative date spec compiled on two different frozen days in ONE process (nothing resolved against an earlier today may be carried over), all order/group lists up to length 2 (+ longer samples) in both clause orders with every subset of omitted clauses, keyword identifiers, and the CLI normalisation function. Each string must pass a well-formedness gate built from the repo's own generated lexer/parser (0 lexer errors, 0 parser errors, all input consumed); a rejected string is reported, never silently dropped.",
        "Identifiers from the documented alphabet minus reserved tokens and 6-digit date-shaped words; file globs compared in stored form.",
        "§4 C04",
    ),
    "C05": (
        "model_checking",
        "explicit-state exploration of create/reindex histories over an exhaustive family of initial directories, every transition executed by the real CLI",
        "For every ZID-less item variant (kind x priority x long date x spacing x tail, plus bodies whose first word looks like a prefix: P1, P15, o, x; leap-day dates and ZIDs) and every ordered pair of a 12-item alphabet in 8 layouts (incl. same-named pages in sub-directories and a page opening with an H2), with and without a pre-existing next_ids.json at carry points, histories over {create, reindex, reindex of one explicit page as the very first command} (with and without the day advancing), pages with Windows line endings, items whose first line holds nothing or only a date after the prefix, a written ZID that a fresh allocator would hand out again are run through the real CLI in fresh processes; in every state: every note has a ZID, the raw index equals the recompiled files field by field (page, line, section path, block, ZID, kind, priority, body, dates, tags, links, properties), each file equals the original except for predicted first lines of formerly ZID-less items, file_hash.json lists exactly the pages with their current SHA-256, and later runs change nothing.",
        "ZID-less items with a hand-written modify date are excluded; trusts M3 (sqlite3 reader) and the line-prediction model.",
        "§4 C05",
    ),
    "C06": (
        "model_checking",
        "explicit-state BFS over edit/reindex/day-advance histories on real directories with a differential oracle (incremental index vs fresh db create)",
        "Breadth-first search to depth 3 (quick) / 4 (thorough) from six initial states (plus a small directory with a 140-note page of 12 KiB whose last note is edited; one level less from the four derived ones: after a stamped edit, after a page was deleted and the index followed, after a plain reindex was refused half-way with a new page already indexed, after one run that wrote a ZID back, dropped a vanished page and took in a new page) over 18 events (edits, add/delete/rename/restore pages, break/repair the last page, plain and path-restricted reindex, day advance); states are real directories deduplicated on a canonical digest (files, raw index, hash map, next ids, whitelist, day, guards). In every state reached by a plain reindex the raw index must equal that of a fresh db create on a copy of the final files, files must be settled, and 16 queries must be answered identically by both indexes.",
        "One small directory and a fixed menu of edits; rows no query can observe (orphan tag/link rows) are not judged.",
        "§4 C06",
    ),
    "C07": (
        "model_checking",
        "exhaustive enumeration of the finite successor/allocation chain + explicit-state BFS over allocation histories on the real ZIDManager",
        "All 135,252 suffixes of the successor chain are enumerated and compared with an independent odometer; the whole allocation chain of a date is driven through the real ZIDManager; every suffix (thorough) or every 2-char suffix plus all carry neighbourhoods (quick) is lexed by both generated lexers and compiled back as a note identity, on ordinary, leap-day and century-edge dates; ZIDs written back by the real db create under 11 kind/priority/date prefixes with prefix look-alike first words must be recognised on recompilation; dates a century apart that share their YYMMDD part draw from one sequence; a BFS over alloc / restart / new-process / other-live-process-allocates histories from 9 initial persisted maps, and round-robin histories over up to 12 (thorough 24) dates with a fresh manager per allocation, check uniqueness, returned==persisted-next and successor==model in every state. The space is finite, so within one date the verdict is complete, not sampled.",
        "Trusts CPython, the antlr4 runtime and the odometer model (mc/models/zid_model.py); dates within one century; no concurrent allocators.",
        "§4 C07",
    ),
    "C08": (
        "exploration",
        "deviation-bounded exhaustive enumeration (0, 1, 2 edits away from valid seed pages + all short token strings) on the real compiler and index commands",
        "Every single-character deletion/insertion/substitution over an alphabet of up to 30 symbols, every line and token edit of up to 12 seed pages that cover every construct, all pairs of line edits (thorough), and all token strings of length <= 3 are compiled by the real compiler; the oracle is the generated parser's own syntax-error counter (read from the intercepted parser instance, independent of ErrorManager) plus a line-shape item count, and an independent parse-tree walk decides whether a note was reachable. One representative per outcome class and 56 valid pages with unusual ZID-less items and a 150-note page changed only at its end are pushed through real db create / db create -f / db reindex and the index is read back with sqlite3 (after a refused reindex it must still hold the page as it was); whitelist look-alike paths and the whitelist life cycle (db create -f whitelists exactly the broken page; still broken, fixed, broken again) are driven through create and reindex.",
        "Lexer-level token-recognition errors (tab, NUL, non-ASCII) are outside the parser's report and only judged for totality; item count for damaged-but-accepted pages uses a line-shape rule.",
        "§4 C08",
    ),
    "C09": (
        "exploration",
        "exhaustive enumeration of (select, grouping list, ordering list, filter) on real indexes; output parsed back and judged by partition/ordering laws + differential count oracle",
        "On two indexes built by the real db create, every select form (also under count()), every grouping list in the tier's set, every ordering list in the tier's set and three filters are executed by the real executor; the rendered text is parsed into groups and checked: each matching note exactly once with its exact text, header chain = its value per dimension, sibling groups sorted/distinct, adjacent notes ordered by the keys (none = path then numeric line), selections = distinct values of the group (sorted under alpha), count(x) = entries of S x for the same group (differential, two real executions).",
        "Two designed corpora; order between a todo and a plain note under `priority` is not judged; matching set from the model over raw rows.",
        "§4 C09",
    ),
    "C10": (
        "exploration",
        "exhaustive enumeration of (source layout x moved note x ZID mentions x destination shape x marker) through the real CLI on real indexed directories, judged by a line-algebra model and recompilation",
        "Moved note in 5 forms (incl. one carrying a modify date and one ending in a blank-only line) x 8 positions (incl. a comment or a section header right below it) x 7 ZID-mention patterns (incl. in its own body, at the start of an earlier note's bullet, a longer ZID that begins with it) x 4 own-tag / own-property patterns x 15 destination shapes (incl. Windows line endings) (incl. no trailing newline, template-created, ending in a section header, the source page itself, an existing page whose name also matches a template pattern) x 3 markers (quick: every value of every dimension in rotation; thorough: every (form, position, destination, marker, mention) with the own-tag pattern rotating plus every (mention, own-tag pattern, form, destination) with position and marker rotating - 24,248 moves; the full product of 86,016 moves was run to completion once); each case indexes a real directory with db create and runs `zorg note move` in a fresh process. Source must equal the original minus exactly the note's lines; destination must preserve every old line in order with the note inserted once, contiguously; both pages are recompiled: same set of notes, requested kind, body = old body plus inserted metadata words, tags/properties superset, every other note unchanged. A second family moves notes that were written WITHOUT a ZID (dated/undated, single/multi-line) straight after db create gave them one.",
        "Moving into a page that does not exist and has no template must fail without touching the source; inherited links are not required to be carried (the statement names tags and properties).",
        "§4 C10",
    ),
    "C11": (
        "model_checking",
        "explicit-state BFS over edit/reindex/day-advance histories on a real directory with a predictive oracle fed by the previous raw index state",
        "Breadth-first search (depth 3 from three initial states in quick; depth 5/4/4 in thorough) over 19 events (body, bullet, kind and priority edits incl. done/cancelled todos and a blocked todo with a priority, a note under a section, a second page with the same file name in a sub-directory, a reorder, a new note, header-only edits, reindex, day advance); at every reindex transition the oracle predicts from the previous index rows and the current files exactly which first lines change and how (stamp inserted or replaced before the ZID, ZID inserted for new notes, every other byte identical), compares file bytes, requires index == recompiled files, and requires an immediately following reindex to change nothing. Both directions of the iff are decided on every explored history.",
        "Current files are read through the real compiler (judged by C01); no hand-written stamps; time does not advance inside a command.",
        "§4 C11",
    ),
    "C12": (
        "exploration",
        "exhaustive small-scope enumeration of notes with a differential round-trip oracle (compile -> emit -> compile) on the real code",
        "Every note of the enumerated single-item family (16 kind/priority forms x 4 identity forms x 1..2 words over 14 words x up to 5 tails) and every ordered pair of the reduced item alphabet is compiled, emitted by the real Note.to_string(), wrapped in a page header, compiled again and compared (kind, ZID, body, own tags/links/properties, dates iff ZID, priority unless done/cancelled); ungrouped S note renderings of a real index under every ordering key list are compiled back and must contain exactly the selected notes in order, also through a refreshed .zoq page (freshly written, and one that was first refreshed with a grouped form of the query); the same on an index that went through a real edit/reindex history and on one whose 45 ZIDs were all handed out by the real allocator.",
        "The first compilation is only the reference for the second (C01 judges it against the written page); index corpus fixed per seed.",
        "§4 C12",
    ),
    "C13": (
        "fault_enumeration",
        "exhaustive crash-point enumeration with an effect-counting interposer (kill before every external effect; torn writes and crash-during-recovery pairs in the thorough tier)",
        "For 10 scenarios (create with ZID-less notes; reindex with stamp + new note + new pages incl. a sub-directory; reindex of pages sharing a tag; create -f with a broken page; reindex whose changes need no write-back; reindex of a page whose notes carry properties and single-use tags, so that removing the old page issues several SQL statements; reindex after a page was renamed and a note cut and pasted with its ZID into another page; reindex after a whitelisted broken page was repaired; reindex with more ZID-less notes on a day whose ZIDs an earlier run already handed out; reindex after a whitelisted page was repaired with nothing to write back) the real command runs in a child whose file writes, renames, unlinks and SQL commits are counted; for every k the child is killed with os._exit immediately before effect k, the same command is re-run to completion, and the recovery invariant is checked: clean exit, raw index == recompiled files, every note has a ZID, no ZID on two notes, user text multiset unchanged, and files/index/meta equal to the uninterrupted run up to renaming of fresh ZIDs. Thorough adds 0% and 50% torn variants of every file write and all ordered pairs of crash points (crash again during recovery).",
        "SQLite commit atomic (journal trusted); no cross-file write reordering or power loss; mkdir is not a crash point.",
        "§4 C13",
    ),
    "C14": (
        "exploration",
        "exhaustive small-scope enumeration of (rename pair x subsets of confusable link texts) through the real CLI, byte-compared with an independent link-token rewrite",
        "11 renames (plain, B extends A, A extends B, in / into a sub-directory, names given with / without .zo in every combination, absolute paths, base names ending in o / z) x every subset of size <= 2 (quick) / <= 3 (thorough) of 13 link texts confusable with the page name (+ the full set), written into the renamed page, another page, a deep page, a .zot template, a .zoq page, a non-zorg file, and linking files without a final newline, with two final newlines, and with form feed / CRLF / U+2028 separators; the real `zorg file rename` runs in a fresh process; file set and every byte must equal the independent rewrite; compiled link sets must differ by exactly the substitution.",
        "Destination directory exists and the destination name is free (renaming onto an existing page cannot satisfy the statement either way); no directory is itself named *.zo; closed link texts only.",
        "§4 C14",
    ),
    "C15": (
        "exploration",
        "exhaustive enumeration of acyclic saved-query sets x referencing queries on a real index, judged by substitution-as-sub-expression in the set-algebra model",
        "Every acyclic assignment of 8 reference-free and 4 referencing clause forms to three saved-query names (one of them dotted, next to decoy pages whose names are its prefixes; 1,536 sets, written with three S/O/G wrapper styles) times 16 referencing query forms (a kind or a priority range next to the reference among them) (incl. the same reference twice, first as a whole alternative and then joined with an atom; clauses may reference two later names, so a page is reached along two paths) is expanded by the real expand_saved_queries and executed by the real repository on an index built by db create; the selected ZIDs (or the count) must equal the model's evaluation with every reference substituted as a sub-expression; the expansion must be well-formed and reference-free; 10 queries naming a saved query that is missing (directly, at a nested level, or with only a prefix-named page present) must make expansion fail and execute raise; and, in one process, {outer}->{inner} is expanded, ONLY the inner page is rewritten (or deleted) and {outer} is expanded again: every expansion must reflect the pages as they are.",
        "Acyclic sets only; one designed corpus; saved pages without a W clause are not explored.",
        "§4 C15",
    ),
    "C16": (
        "exploration",
        "exhaustive enumeration of ordered pattern maps x targets x flags through the real init_from_template and CLI, judged by an oracle-side jinja2 rendering",
        "Every ordered pattern map of size <= 2 (quick) / <= 3 (thorough) over 9 patterns (incl. ones that match only a prefix of the name and one with an optional group that takes no part in the match; also pairs of overlapping patterns that share ONE template file, and existing zero-byte targets) x 10 targets x {missing, existing} x overwrite x explicit template x 4 variable maps through the real function, plus 13 maps (all variable maps, incl. a date) through `zorg template init` with the map read from YAML in order: existing-and-not-forced files keep bytes and mtime, missing files get exactly the oracle's rendering of the first matching pattern's template body, nothing (no file, no directory) is created without a template, and a second invocation changes nothing. The same contract through `zorg edit TARGET` (a stand-in editor records the file as it is when the editor opens) and `zorg action open` on a line holding [[TARGET]]; and two initialisations in one process where only the first target's pattern captures a variable (function, caller-owned variable map, `zorg edit A B`).",
        "ZorgTemplateManager's process-global scratch directory is re-created per worker; edit / action open / note move reach the same function.",
        "§4 C16",
    ),
    "C17": (
        "exploration",
        "exhaustive enumeration of lines (prefix x target sequence x wrapper) x option indices on the real command, with a scanner/resolver model and a differential single-target oracle",
        "Every line of the enumerated family, in a .zo and a .zoq page of a directory indexed by the real db create, is passed to the real `action open` (targets incl. an ID:: inherited from a section header by several notes of one page; the index also holds a decoy note that owns another ID/RID and carries the looked-up values under other keys) for every option index in {absent, 1..n, -1, n+1, 0}: output must be protocol lines only, 0 targets => ECHO, >= 2 => PROMPT in line order (primary ZID only in .zoq), a chosen target must resolve as its kind demands (owners taken from the raw index) and behave exactly like a line holding only that target; out-of-range => non-zero exit and no EDIT.",
        "Named-URL and cite-key targets start external programs and are not driven; in-process calls cross-checked against forked CLI processes on a sample.",
        "§4 C17",
    ),
    "C18": (
        "exploration",
        "exhaustive small-scope enumeration of configurations x inputs against a reference model + differential concatenation law",
        "Every acyclic group map over three names with member lists up to the stated length over a 6-symbol alphabet (plus ordinary paths containing braces), times every argument list up to the stated length, on 5 frozen days at window edges, is expanded by the real function and compared with an independent recursive flatten; the concatenation law is checked on every split. Exhaustive within the stated alphabet and bounds.",
        "Small-scope hypothesis for names/paths outside the alphabet; time frozen with freezegun; acyclic maps only (as the statement says).",
        "§4 C18",
    ),
}

NOT_YET = "not claimed"

# sentences added to a check's text after later widenings (kept apart so the table above stays readable)
ADDENDA = {
    "C01": "Identity forms include the leap days of century years that are leap years (000229, 2000-02-29, 2400-02-29). First body words shaped like relative date specs (5m, 10d, 1y ...) followed by a ZID / date are words.",
    "C02": "Heavy decoration also carries one-letter link targets (X under every link kind but the ignored [^X]) and, behind a header's own date, a date-valued property and a date-named link (which are not the header's date). Headers also carry an embedded reference ((date)) and a tag named like a date behind their own date.",
    "C03": "Date ranges also use two-digit years 69..99; a 1100-note page is the target of link filters. Link filters are also answered twice inside ONE long-lived `zorg edit` process with the index changing in between (scripted edit sessions).",
    "C04": "Relative dates are also compiled on a machine whose local calendar day is not the UTC calendar day (00:30 at UTC+2, 19:30 at UTC-8; the frozen clock's datetime.now(tz) is made faithful). Quoted texts include texts that begin or end with the other kind of quote.",
    "C05": "Items also carry create dates at a turn of the year (ISO week-year differs), a create date after 2099 (known finding), and raw bytes that are not valid UTF-8. A layout holds bare carriage returns above the items; scripted sessions of ONE long-lived `zorg edit` process (several reindex runs, lines shifting between them) must leave every note with its ZID and the index equal to the recompiled files.",
    "C06": "Two more initial states put the indexed directory on a machine whose local calendar day is not the UTC calendar day. One more event reindexes an explicit path spelled <dir>/sub/../a.zo, one deletes the added page again, the last holder of a link loses it, link selections are among the queries; scripted `zorg edit` sessions (one process, several reindex runs) must end equal to a rebuild.",
    "C07": "Allocation dates include days whose ISO week-based year is not their calendar year; command-level histories over {append a ZID-less note, db create, db reindex, delete the database file} must never write one ZID on two notes. The written-back page holds bare carriage returns above the items. One allocation per case may find its read of next_ids.json answered with EACCES / EIO / ESTALE / EPERM.",
    "C08": "Contents include raw bytes that are not valid UTF-8 (ISO-8859-1 text, a stray 0xFF / 0x80, a cut multi-byte sequence, a BOM), at compile and at command level. Property keys and tag names include names that are parameter names of logging / formatting / ORM calls (event, self, kwargs, ...), quoted and not, at compile and command level. Commands are also started from a sub-directory of the notes directory that holds clean pages with the same names.",
    "C09": "Two more indexes: one in which a note line was copied to another page (two notes share a ZID), one whose page paths contain '.zo' before the extension too. A third corpus is K4 after a real history (a page that was the only holder of a link / tag / key deleted, another last holder edited, plain reindex), under every value selection. Six queries are also run through the CLI at -v, -vv and -vvv: the rendering is the same text at the end of the output.",
    "C10": "The source page's header block carries property values with backslashes and values that merely look like a date / a ZID.",
    "C11": "Two more initial states put the directory on a machine whose local calendar day is not the UTC calendar day. Scripted `zorg edit` sessions (one process stamping on several occasions, midnight passing while the editor is open) must leave index and files in agreement.",
    "C12": "Part 3 runs the real note move for 6 kind/priority forms x 7 tails x 3 source header blocks x {no marker, x, ~} and judges the text that arrived on the destination page. Saved-query pages refreshed twice inside ONE long-lived `zorg edit` process must show what a fresh process shows.",
    "C13": "Besides dying immediately BEFORE effect k, the command also dies the moment effect k's call has RETURNED (nothing still buffered in an open file reaches the disk, the database file that was just deleted has not been re-created); an eleventh scenario rebuilds an existing index (db create over an old database). A twelfth scenario reindexes ONE explicit page that needs both write-backs.",
    "C14": "Rename pairs include names that are not in Unicode normal form C; one linking page is ISO-8859-1 (not valid UTF-8). Two cases hold large pages in which the only link starts at every byte offset around 4 KiB, 8 KiB, 64 KiB and 128 KiB. Renames are also started from a sub-directory of the notes directory that holds a page with the old name.",
    "C15": "A slice of the referencing queries is also expanded with the notes directory spelled through a symlink, with a '..' and with a doubled slash. Saved pages in sub-directories of zoq/ that mention flat names (and a same-named decoy next to them) are referenced too. References are also expanded with the process's working directory inside the notes directory, in a sub-directory that has a zoq/ of its own.",
    "C16": "One pattern's group takes part in the match but may capture nothing (target _log.zo). A third of the templates end their header block with a blanks-only or tab-only line. Templates have a line that starts with a variable; one variable map gives it a value that looks like the template header marker ('## ...').",
    "C17": "One referenced ZID is owned by notes of two pages (either page may be opened); three prefixes put the first target directly after the item's prefix. Prefixes whose first body word is made of kind characters or punctuation, and whole lines with a bare ZID right after a link / at the start of a continuation line, are included.",
    "C18": "Besides a UTC machine at noon, expansion also runs where the local calendar day is not the UTC calendar day (00:30 at UTC+2, 19:30 at UTC-8). A family without freezegun runs in zones with daylight-saving time (TZ + tzset, a stand-in clock) at instants next to midnight on both sides of a switch. The innermost group may hold a pattern with brace escapes ('{{' / '}}').",
}


def main() -> None:
    props = [json.loads(l) for l in (VERIF / "properties.jsonl").read_text().splitlines() if l.strip()]
    checks = []
    for pid in sorted(CHECKS):
        level, technique, text, note, ref = CHECKS[pid]
        if pid in ADDENDA:
            text = text + " " + ADDENDA[pid]
        checks.append({
            "property_id": pid,
            "quick_cmd": f"./check {pid} --tier quick",
            "thorough_cmd": f"./check {pid} --tier thorough",
            "evidence_file": f"/verif/evidence/{pid}.json",
            "replay_cmd_template": f"./check {pid} --replay {{path}}",
            "engine": "mc",
            "level_claimed": {"category": level, "text": text, "design_ref": ref},
            "level_note": note,
            "technique": technique,
        })
    man = {
        "version": 1,
        "setup_cmd": "/venv/bin/python -c \"import zorg, freezegun, antlr4, yaml; print('ok', zorg.__file__)\"",
        "hooks": {
            "guard": "ZORG_VERIF",
            "enable": "no source hooks exist: the checks interpose at run time from the harness process (./check exports ZORG_VERIF=1 for completeness); zorg is imported directly from /repo/src, there is no build step",
            "baseline_off_cmd": "/verif/tools/baseline.sh",
            "source_commits": [],
            "add_only": True,
        },
        "engines": [{
            "name": "mc",
            "path": "/verif/mc",
            "serves_properties": sorted(CHECKS),
            "kind_free_text": "hand-written explicit-state / small-scope exhaustive explorer in Python driving the real zorg code in forked processes under frozen time; reference models in mc/models",
        }],
        "checks": checks,
        "not_applicable": [
            {"property_id": p["id"], "reason": NOT_YET}
            for p in props if p["id"] not in CHECKS
        ],
        "notes": "See DESIGN.md. Known findings: known_findings.json. Fix commits in /repo start with 'fix:'. A violation is believed only after it reproduces in a fresh replay - alone, or together with the evaluations that preceded it in its worker process (then the replay file carries that history). An exception that escapes from zorg's own code while a check drives it with an input of the property's domain is reported as a violation (signature exception-in-zorg:...), an exception raised by the check's own code as a harness error (exit 2).",
    }
    (VERIF / "MANIFEST.json").write_text(json.dumps(man, indent=1) + "\n")
    print("wrote MANIFEST.json with", len(checks), "checks")


if __name__ == "__main__":
    main()
