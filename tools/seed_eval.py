#!/usr/bin/env python3
"""tools/seed_eval.py <name> <patch.diff> <demo.py> <meta.json> [--checks C01,C05] [--tier quick]

Confirms a seeded property-breaking change independently and runs the checks
against it:

 1. a fresh scratch worktree of /repo HEAD is created under /tmp;
 2. demo.py must PASS there (exit 0) before the patch;
 3. the patch must apply; the 84-test baseline must still pass with it;
 4. demo.py must FAIL (exit != 0) with the patch;
 5. the patch is applied to /repo itself, the named checks run (evidence
    redirected), and /repo is restored with `git checkout -- .`;
 6. everything is recorded in /verif/seeded/<name>/ (patch.diff, demo.py,
    meta.json with the outcome).
The scratch worktree is removed at the end.
"""
import json
import os
import shutil
import subprocess
import sys
import tempfile
from pathlib import Path

VERIF = Path(__file__).resolve().parents[1]


def sh(cmd, **kw):
    return subprocess.run(cmd, shell=isinstance(cmd, str), capture_output=True, text=True, **kw)


def main():
    args = sys.argv[1:]
    name, patch, demo, meta = args[:4]
    checks = None
    tier = "quick"
    for i, a in enumerate(args):
        if a == "--checks":
            checks = args[i + 1].split(",")
        if a == "--tier":
            tier = args[i + 1]
    meta_d = json.loads(Path(meta).read_text()) if Path(meta).exists() else {}
    prop = meta_d.get("property") or name.split("-")[0]
    checks = checks or [prop]
    out_dir = VERIF / "seeded" / name
    out_dir.mkdir(parents=True, exist_ok=True)
    shutil.copy(patch, out_dir / "patch.diff")
    shutil.copy(demo, out_dir / "demo.py")
    result = {"confirmed": False}
    wt = Path(tempfile.mkdtemp(prefix="seedwt-", dir="/tmp")) / "wt"
    try:
        r = sh(["git", "-C", "/repo", "worktree", "add", "--detach", str(wt), "HEAD", "-q"])
        if r.returncode:
            raise SystemExit("worktree add failed: " + r.stderr)
        env = dict(os.environ, PYTHONPATH=str(wt / "src"), PYTHONDONTWRITEBYTECODE="1")
        env.pop("ZORG_VERIF", None)
        # some demonstrations locate the source relative to their own path
        # (<worktree>/seed/demo.py -> ../src), so run them from that place
        (wt / "seed").mkdir(exist_ok=True)
        demo_in_wt = wt / "seed" / "demo.py"
        shutil.copy(out_dir / "demo.py", demo_in_wt)
        d0 = sh(["/venv/bin/python", str(demo_in_wt)], env=env, cwd=str(wt), timeout=900)
        result["demo_clean_exit"] = d0.returncode
        result["demo_clean_tail"] = (d0.stdout + d0.stderr)[-300:]
        a = sh(["git", "-C", str(wt), "apply", str(out_dir / "patch.diff")])
        result["patch_applies"] = a.returncode == 0
        if a.returncode:
            result["apply_error"] = a.stderr[-400:]
        else:
            b = sh([str(VERIF / "tools" / "baseline.sh"), str(wt)], timeout=1800)
            result["baseline_with_patch"] = b.stdout.strip().split("\n")[-1]
            result["baseline_ok"] = b.returncode == 0
            d1 = sh(["/venv/bin/python", str(demo_in_wt)], env=env, cwd=str(wt), timeout=900)
            result["demo_patched_exit"] = d1.returncode
            result["demo_patched_tail"] = (d1.stdout + d1.stderr)[-400:]
            result["confirmed"] = bool(d0.returncode == 0 and result["baseline_ok"] and d1.returncode != 0)
    finally:
        sh(["git", "-C", "/repo", "worktree", "remove", "--force", str(wt)])
        shutil.rmtree(wt.parent, ignore_errors=True)
    # run the checks against the change
    det = {}
    if result.get("patch_applies") and "--scratch" in args:
        # /repo is busy (a long run reads it): the patch is applied in a second scratch worktree and the
        # checks are pointed at that tree (VERIF_REPO); same code, same checks, /repo untouched
        wt2 = Path(tempfile.mkdtemp(prefix="seedwt2-", dir="/tmp")) / "wt"
        ev = tempfile.mkdtemp(prefix="seed-evidence-", dir="/dev/shm")
        try:
            sh(["git", "-C", "/repo", "worktree", "add", "--detach", str(wt2), "HEAD", "-q"])
            sh(["git", "-C", str(wt2), "apply", str(out_dir / "patch.diff")])
            for c in checks:
                r = sh(["./check", c, "--tier", tier], cwd=str(VERIF),
                       env=dict(os.environ, VERIF_EVIDENCE_DIR=ev, VERIF_REPO=str(wt2)), timeout=7200)
                lines = [l for l in r.stdout.split("\n") if l.startswith(("VIOLATION", "  unlisted"))]
                det[c] = {"exit": r.returncode, "tier": tier, "detected": r.returncode == 1, "run_against": "scratch worktree (VERIF_REPO)",
                          "classes": [l.strip()[:200] for l in lines][:8]}
                if r.returncode not in (0, 1):
                    det[c]["stderr"] = r.stderr[-600:]
        finally:
            sh(["git", "-C", "/repo", "worktree", "remove", "--force", str(wt2)])
            shutil.rmtree(wt2.parent, ignore_errors=True)
            shutil.rmtree(ev, ignore_errors=True)
    elif result.get("patch_applies"):
        if sh("git -C /repo diff --quiet").returncode != 0:
            raise SystemExit("/repo has uncommitted changes; refusing to apply a seed")
        ev = tempfile.mkdtemp(prefix="seed-evidence-", dir="/dev/shm")
        try:
            sh(["git", "-C", "/repo", "apply", str(out_dir / "patch.diff")])
            for c in checks:
                r = sh(["./check", c, "--tier", tier], cwd=str(VERIF), env=dict(os.environ, VERIF_EVIDENCE_DIR=ev),
                       timeout=7200)
                lines = [l for l in r.stdout.split("\n") if l.startswith(("VIOLATION", "  unlisted"))]
                det[c] = {"exit": r.returncode, "tier": tier, "detected": r.returncode == 1,
                          "classes": [l.strip()[:200] for l in lines][:8]}
                if r.returncode not in (0, 1):
                    det[c]["stderr"] = r.stderr[-600:]
        finally:
            sh("git -C /repo checkout -- .")
            shutil.rmtree(ev, ignore_errors=True)
    result["checks"] = det
    meta_d.update({"evaluation": result})
    (out_dir / "meta.json").write_text(json.dumps(meta_d, indent=1) + "\n")
    print(json.dumps({"name": name, "confirmed": result["confirmed"],
                      "detected": {c: d["detected"] for c, d in det.items()},
                      "baseline": result.get("baseline_with_patch"),
                      "demo": [result.get("demo_clean_exit"), result.get("demo_patched_exit")]}, indent=1))
    for c, d in det.items():
        for l in d["classes"]:
            print("   ", c, l)


if __name__ == "__main__":
    main()
