#!/bin/bash
# Regenerates findings/*.json: one replayable witness per listed known finding.
cd "$(dirname "$0")/.."
export VERIF_WITNESS_DIR="$PWD/findings" VERIF_EVIDENCE_DIR=$(mktemp -d /dev/shm/wit-evidence.XXXXXX)
for id in $(python3 -c "import json;print(' '.join(sorted({f['property'] for f in json.load(open('known_findings.json'))['findings']})))"); do
  ./check "$id" --tier quick | tail -1
done
rm -rf "$VERIF_EVIDENCE_DIR"; ls findings
