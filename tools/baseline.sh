#!/bin/bash
# Runs the repository's pinned test suite (guard off) on /repo (or $1) and
# prints a one-line summary; exit 0 iff 84 passed and none failed.
repo="${1:-/repo}"
out="$(mktemp /dev/shm/baseline.XXXXXX.xml)"
cd "$repo" && env -u ZORG_VERIF PYTHONPATH="$repo/src" /venv/bin/python -m pytest -ra -q -p no:cacheprovider --timeout=900 --continue-on-collection-errors --junitxml="$out" >"$out.log" 2>&1
tail -3 "$out.log"
res=$(python3 - "$out" <<'P'
import sys,xml.etree.ElementTree as ET
r=ET.parse(sys.argv[1]).getroot()
ts=r if r.tag=='testsuite' else r.find('testsuite')
t=int(ts.get('tests'));f=int(ts.get('failures'))+int(ts.get('errors'));s=int(ts.get('skipped'))
print(f"tests={t} failed={f} skipped={s}")
sys.exit(0 if (t-f-s)>=84 and f==0 else 1)
P
)
rc=$?
echo "BASELINE $res"
rm -f "$out" "$out.log"
exit $rc
