#!/usr/bin/env python3
"""Writes seeded/SUMMARY.md from the meta.json of every kept seeded change."""
import json
from pathlib import Path

VERIF = Path(__file__).resolve().parents[1]


def main():
    rows = []
    for d in sorted((VERIF / "seeded").iterdir()):
        m = d / "meta.json"
        if not m.exists():
            continue
        j = json.loads(m.read_text())
        ev = j.get("evaluation", {})
        det = []
        for c, r in sorted(ev.get("checks", {}).items()):
            det.append(f"{c} {r.get('tier')}: {'VIOLATION' if r.get('detected') else 'silent'}")
        for c, r in sorted(j.get("thorough", {}).items()):
            det.append(f"{c} thorough: {'VIOLATION' if r.get('detected') else 'silent'}")
        rows.append((d.name, j.get("property", "?"), j.get("summary", "").replace("|", "\\|"),
                     j.get("needs_to_manifest", "").replace("|", "\\|"),
                     "yes" if ev.get("confirmed") else "NO", "; ".join(det), j.get("note", "")))
    out = ["# Seeded property-breaking changes", "",
           "Written by fresh sub-agents that saw only the property text and a scratch worktree.",
           "`confirmed` = re-verified here in a fresh worktree: demo passes on the clean tree, the 84-test",
           "suite still passes with the patch, the demo fails with the patch.", "",
           "| name | property | change | needs to manifest | confirmed | checks | note |", "|---|---|---|---|---|---|---|"]
    for r in rows:
        out.append("| " + " | ".join(r) + " |")
    (VERIF / "seeded" / "SUMMARY.md").write_text("\n".join(out) + "\n")
    print(f"{len(rows)} seeded changes")


if __name__ == "__main__":
    main()
