"""Replays the committed witness of every listed known finding against the real
code, without the explorer:  python3 -m unittest findings/test_findings.py

Each replay must still reproduce its finding (./check prints KNOWN-FINDING and
exits 0). If a witness stops reproducing, the defect is gone (move the entry to
"fixed") ; if it starts exiting 1 its signature changed and it is a VIOLATION.
"""
import glob
import os
import subprocess
import unittest

HERE = os.path.dirname(os.path.abspath(__file__))
VERIF = os.path.dirname(HERE)


class Findings(unittest.TestCase):
    def test_every_witness_reproduces_its_finding(self):
        files = sorted(glob.glob(os.path.join(HERE, "*-finding-*.json")))
        self.assertTrue(files, "no witnesses committed")
        for f in files:
            prop = os.path.basename(f).split("-")[0]
            r = subprocess.run(["./check", prop, "--replay", f], cwd=VERIF, capture_output=True, text=True)
            with self.subTest(witness=os.path.basename(f)):
                self.assertEqual(r.returncode, 0, r.stdout[-500:] + r.stderr[-500:])
                self.assertIn("KNOWN-FINDING: property=" + prop, r.stdout)


if __name__ == "__main__":
    unittest.main()
