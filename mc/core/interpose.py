"""Effect counting and crash injection for one zorg command (runs in a forked
child).  External effects intercepted, in program order:

  Path.write_text, Path.open(mode w/a/x), Path.touch, Path.unlink, Path.rename,
  Path.replace,
  sqlalchemy Session.commit

Re-entrant calls (write_text calls open) count once.  With `crash_at = k` the
process dies with os._exit(77) immediately before effect number k (1-based) —
no `__exit__`, no rollback code, no atexit handler runs.  With `torn = (k, frac)`
the k-th effect, if it is a file write, is applied partially (the file is left
holding the first `frac` of its new content) and then the process dies.  With
`crash_after = k` the process dies the moment effect k's call has returned, before
any Python code that follows it runs (so nothing still sitting in a write buffer of
an open file reaches the disk).
"""

from __future__ import annotations

import os
import pathlib
from typing import Any, Optional

CRASH_EXIT = 77


class Recorder:
    def __init__(self, crash_at: Optional[int] = None, torn: Optional[tuple] = None, root: str = "",
                 crash_after: Optional[int] = None) -> None:
        self.effects: list[tuple[str, str]] = []
        self.crash_at = crash_at
        self.crash_after = crash_after
        self.torn = torn
        self.depth = 0
        self.root = root

    def rel(self, p: Any) -> str:
        s = str(p)
        return s[len(self.root) + 1:] if self.root and s.startswith(self.root + "/") else s

    def effect(self, kind: str, target: Any) -> int:
        """Registers an effect about to happen; may kill the process."""
        self.effects.append((kind, self.rel(target)))
        n = len(self.effects)
        if self.crash_at is not None and n == self.crash_at:
            os._exit(CRASH_EXIT)
        return n

    def done(self, n: int) -> None:
        """Effect n's call has returned; may kill the process."""
        if self.crash_after is not None and n == self.crash_after:
            os._exit(CRASH_EXIT)


def install(rec: Recorder) -> None:
    import sqlalchemy.orm.session as sa_session

    P = pathlib.Path
    orig_write_text = P.write_text
    orig_open = P.open
    orig_touch = P.touch
    orig_unlink = P.unlink
    orig_rename = P.rename
    orig_replace = P.replace
    orig_commit = sa_session.Session.commit

    def write_text(self, data, *a, **k):
        if rec.depth:
            return orig_write_text(self, data, *a, **k)
        n = rec.effect("write_text", self)
        if rec.torn and rec.torn[0] == n:
            cut = int(len(data) * rec.torn[1])
            with open(self, "w") as f:
                f.write(data[:cut])
                f.flush()
            os._exit(CRASH_EXIT)
        rec.depth += 1
        try:
            res = orig_write_text(self, data, *a, **k)
        finally:
            rec.depth -= 1
        rec.done(n)
        return res

    def open_(self, mode="r", *a, **k):
        if rec.depth or not any(c in mode for c in "wax+"):
            return orig_open(self, mode, *a, **k)
        n = rec.effect(f"open({mode})", self)
        f = orig_open(self, mode, *a, **k)
        if rec.torn and rec.torn[0] == n:
            # the file has been truncated by the open; die before any content
            # reaches it (frac 0) or after the first part of it (frac > 0)
            if rec.torn[1] <= 0:
                os._exit(CRASH_EXIT)
            return _TornFile(f, rec.torn[1])
        return f

    def touch(self, *a, **k):
        if rec.depth:
            return orig_touch(self, *a, **k)
        n = rec.effect("touch", self)
        res = orig_touch(self, *a, **k)
        rec.done(n)
        return res

    def unlink(self, *a, **k):
        if rec.depth:
            return orig_unlink(self, *a, **k)
        n = rec.effect("unlink", self)
        res = orig_unlink(self, *a, **k)
        rec.done(n)
        return res

    def rename(self, target, *a, **k):
        if rec.depth:
            return orig_rename(self, target, *a, **k)
        n = rec.effect("rename", f"{rec.rel(self)} -> {rec.rel(target)}")
        res = orig_rename(self, target, *a, **k)
        rec.done(n)
        return res

    def replace(self, target, *a, **k):
        if rec.depth:
            return orig_replace(self, target, *a, **k)
        n = rec.effect("replace", f"{rec.rel(self)} -> {rec.rel(target)}")
        res = orig_replace(self, target, *a, **k)
        rec.done(n)
        return res

    def commit(self, *a, **k):
        n = rec.effect("commit", "zorg.db")
        res = orig_commit(self, *a, **k)
        rec.done(n)
        return res

    P.write_text = write_text
    P.open = open_
    P.touch = touch
    P.unlink = unlink
    P.rename = rename
    P.replace = replace
    sa_session.Session.commit = commit


class _TornFile:
    """Collects what is written and, on close, keeps only a prefix, then dies."""

    def __init__(self, f, frac: float) -> None:
        self._f = f
        self._frac = frac
        self._buf: list[str] = []

    def write(self, s):
        self._buf.append(s)
        return len(s)

    def __enter__(self):
        return self

    def __exit__(self, *a):
        self.close()

    def close(self):
        data = "".join(self._buf)
        self._f.write(data[: int(len(data) * self._frac)])
        self._f.flush()
        os._exit(CRASH_EXIT)

    def __getattr__(self, name):
        return getattr(self._f, name)
