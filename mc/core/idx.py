"""A real index built by the real `db create`, queried in-session by workers."""

from __future__ import annotations

import datetime as dt
import os
from pathlib import Path
from typing import Any, Optional

from . import harness as H
from . import zdir as Z
from ..models import index_reader as IR
from ..models import query_model as Q


class Index:
    def __init__(self, files: dict[str, str], day: dt.date, tag: str = "ix", allow_shared_zids: bool = False) -> None:
        self.day = day
        self.zdir = Z.make_zdir(files, tag)
        r = Z.db_create(self.zdir, day)
        if not Z.cli_ok(r):
            raise H.HarnessError(
                f"corpus did not index cleanly: {r.status} {r.value} {r.exc}\n{r.err[-1500:]}"
            )
        after = Z.snapshot(self.zdir, with_meta=False)
        if after != {k: v for k, v in files.items()}:
            raise H.HarnessError("corpus files were rewritten by db create (every note must carry a ZID)")
        self.raw = IR.read_index(self.zdir)
        if allow_shared_zids:
            # a note line copied to another page: the same ZID on two note rows is the corpus' point
            self.raw["problems"] = [p for p in self.raw["problems"] if not (p.startswith("ZID ") and " note rows" in p)]
        if self.raw["problems"]:
            raise H.HarnessError(f"corpus index has structural problems: {self.raw['problems']}")
        self.universe = Q.Universe(self.raw["notes"])
        self._sess: dict[int, Any] = {}

    @classmethod
    def after_history(cls, files: dict[str, str], day: dt.date, edits, tag: str = "ixh") -> "Index":
        """An index that went through a real history: `db create`, then `edits(zdir)` (a callable
        that changes the files) and a plain `db reindex`.  The universe is read back from the raw
        rows afterwards, so what a query must answer is what the NOTES now carry."""
        ix = cls.__new__(cls)
        ix.day = day
        ix.zdir = Z.make_zdir(files, tag)
        r = Z.db_create(ix.zdir, day)
        if not Z.cli_ok(r):
            raise H.HarnessError(f"history corpus did not index cleanly: {r.err[-800:]}")
        edits(ix.zdir)
        r = Z.db_reindex(ix.zdir, day)
        if not Z.cli_ok(r):
            raise H.HarnessError(f"history corpus did not reindex cleanly: {r.err[-800:]}")
        ix.raw = IR.read_index(ix.zdir)
        hard = [p for p in ix.raw["problems"] if not p.startswith("orphan ")]
        if hard:
            raise H.HarnessError(f"history corpus index has structural problems: {hard}")
        ix.universe = Q.Universe(ix.raw["notes"])
        ix._sess = {}
        return ix

    def session(self) -> Any:
        pid = os.getpid()
        s = self._sess.get(pid)
        if s is None:
            from zorg.storage.sql import SQLSession

            s = SQLSession(self.zdir, H.db_url(self.zdir))
            s.__enter__()
            self._sess = {pid: s}
        return s

    def where_zids(self, qtext: str) -> tuple[Optional[list[str]], Optional[str]]:
        """ZIDs returned by the real repo for the WHERE clause of `qtext`."""
        from zorg.service.compiler import build_zorg_query

        try:
            q = build_zorg_query(qtext)
            notes = self.session().repo.get_notes_by_query(q.where)
            return [n.zid for n in notes], None
        except Exception as e:  # noqa: BLE001
            import traceback

            tb = traceback.extract_tb(e.__traceback__)
            frame = next((f"{Path(f.filename).name}:{f.name}" for f in reversed(tb)
                          if "/zorg/" in f.filename), "?")
            return None, f"{type(e).__name__}@{frame}: {e}"

    def execute(self, qtext: str) -> tuple[Optional[str], Optional[str]]:
        """swog.execute_with_session on this index (in-process)."""
        from zorg.service.swog._executor import execute_with_session

        try:
            return execute_with_session(self.session(), qtext), None
        except Exception as e:  # noqa: BLE001
            return None, f"{type(e).__name__}: {e}"

    def private_copy(self) -> "Index":
        """A per-process copy of the directory (files + built index) for checks
        that write into the notes directory; shares the universe."""
        pid = os.getpid()
        cp = getattr(self, "_copies", {}).get(pid)
        if cp is None:
            cp = Index.__new__(Index)
            cp.day = self.day
            cp.zdir = Z.copy_zdir(self.zdir, with_index=True, tag="ixc")
            cp.raw = self.raw
            cp.universe = self.universe
            cp._sess = {}
            self._copies = {pid: cp}
        return cp

    def drop(self) -> None:
        Z.drop(self.zdir)
