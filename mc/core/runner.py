"""./check entry point: run one property check, attribute violations to known
findings, write evidence and replay files, set the exit code.

exit 0  property held on everything explored (KNOWN-FINDING lines allowed)
exit 1  at least one unlisted violation (VIOLATION line printed)
exit 2  harness error (never a VIOLATION)
"""

from __future__ import annotations

import argparse
import importlib
import json
import os
import sys
import traceback
from pathlib import Path

from . import framework as F
from . import harness as H

CHECKS = {f"C{n:02d}": f"mc.checks.c{n:02d}" for n in range(1, 19)}


def main(argv: list[str]) -> int:
    ap = argparse.ArgumentParser(prog="check")
    ap.add_argument("prop")
    ap.add_argument("--tier", default=os.environ.get("VERIF_TIER") or "quick",
                    choices=["quick", "thorough"])
    ap.add_argument("--replay", default=None)
    ap.add_argument("--workers", type=int, default=None)
    a = ap.parse_args(argv)
    prop = a.prop.upper()
    if prop not in CHECKS:
        print(f"unknown property {prop}", file=sys.stderr)
        return 2
    try:
        seed = int(os.environ.get("VERIF_SEED", "0") or 0)
    except ValueError:
        seed = 0
    ctx = F.Ctx(prop=prop, tier=a.tier, seed=seed,
                workers=a.workers or H.n_workers())
    t0 = H.now()
    try:
        H.assert_repo_source()
        H.preload()
        H.quiet_logging()
        mod = importlib.import_module(CHECKS[prop])
        if a.replay:
            return _replay(mod, ctx, Path(a.replay))
        for old in (F.VERIF / "replays").glob(f"{prop}-{a.tier}-*.json"):
            old.unlink()  # replay files of an earlier run of this check
        rep, meta = mod.run(ctx)
        return _finish(mod, ctx, rep, meta, H.now() - t0)
    except H.HarnessError as e:
        print(f"HARNESS-ERROR property={prop}: {e}", file=sys.stderr)
        return 2
    except Exception:  # noqa: BLE001
        print(f"HARNESS-ERROR property={prop}:", file=sys.stderr)
        traceback.print_exc()
        return 2


def _replay(mod, ctx: F.Ctx, path: Path) -> int:
    doc = json.loads(path.read_text())
    H.freeze(H.DEFAULT_DAY)
    if doc.get("history"):
        # the verdict needs the evaluations that preceded it in the same process
        for c in doc["history"]:
            out = F.call_guarded(mod.replay, c, ctx)
    else:
        out = F.call_guarded(mod.replay, doc["case"], ctx)
    print(json.dumps({"ok": out.ok, "sig": out.sig,
                      "detail": F.jsonable(out.detail)}, indent=1))
    if out.ok:
        print(f"REPLAY property={ctx.prop} holds on {path}")
        return 0
    known = F.load_findings(ctx.prop)
    if out.sig in known:
        print(f"KNOWN-FINDING: property={ctx.prop} {known[out.sig]}")
        return 0
    print(f"VIOLATION property={ctx.prop} replay={path}")
    return 1


def _finish(mod, ctx: F.Ctx, rep: F.Report, meta: dict, wall: float) -> int:
    prop = ctx.prop
    if rep.nondeterministic:
        print(f"HARNESS-ERROR property={prop}: {len(rep.nondeterministic)} "
              f"cases gave different observations when run twice: "
              f"{json.dumps(F.jsonable(rep.nondeterministic[:2]))}",
              file=sys.stderr)
        return 2
    known = F.load_findings(prop)
    known_seen: list[str] = []
    new: list[dict] = []
    # confirm every kept violation deterministically before believing it: first the case on
    # its own; failing that, together with the evaluations that preceded it in its worker
    # process (a verdict that depends on what the process did before is state the code under
    # test carries between calls - reported with the history that is needed)
    H.freeze(H.DEFAULT_DAY)
    hists = {id(v): v.pop("_hist", None) for v in rep.violations}
    confirmed: set = set()
    unreproduced: list = []
    for v in rep.violations:
        again = None if v.get("twice") else F.call_guarded(mod.replay, F.jsonable(v["case"]), ctx)
        if again is not None and not again.ok and again.sig == v["sig"]:
            confirmed.add(v["sig"])
            continue
        h = hists.get(id(v))
        seq = None
        if h is not None:
            v["_hist"] = h
            full = F.history_of(v)
            tries = []
            k = 2
            while k < len(full):
                tries.append(full[-k:])
                k = k * 2 - 1 if k > 2 else 3
            tries.append(full)
            for t in tries:
                r = F.run_history(v, t)
                if r is not None and not r[0] and r[1] == v["sig"]:
                    # must fail the same way a second time to be believed
                    r2 = F.run_history(v, t)
                    if r2 is not None and not r2[0] and r2[1] == v["sig"]:
                        seq = t
                        break
            cases = h[0]
            v.pop("_hist", None)
            if seq is not None:
                v["history"] = [F.jsonable(cases[j]) for j in seq] + ([F.jsonable(v["case"])] if v.get("twice") else [])
                v["detail"] = dict(v["detail"] or {})
                v["detail"]["needs_earlier_evaluations_in_the_same_process"] = len(v["history"]) - 1
                confirmed.add(v["sig"])
                continue
        unreproduced.append(v)
    if unreproduced:
        bad = {v["sig"] for v in unreproduced} - confirmed
        rep.violations = [v for v in rep.violations if v not in unreproduced]
        if bad and not any(s not in known for s in confirmed):
            print(f"HARNESS-ERROR property={prop}: violation did not reproduce "
                  f"on replay (alone or with its worker's history): "
                  f"{json.dumps(F.jsonable(unreproduced[0]))[:600]}", file=sys.stderr)
            return 2
        for s in bad:
            rep.counters["violation_classes_dropped_as_unreproducible"] = \
                rep.counters.get("violation_classes_dropped_as_unreproducible", 0) + 1
            rep.viol_sigs.pop(s, None)
    for sig, n in sorted(rep.viol_sigs.items()):
        if sig in known:
            known_seen.append(sig)
            print(f"KNOWN-FINDING: property={prop} {known[sig]} "
                  f"[sig={sig} cases={n}]")
    wdir = os.environ.get("VERIF_WITNESS_DIR")
    if wdir:
        # tools/make_witnesses.sh: keep one replayable witness per listed finding
        Path(wdir).mkdir(parents=True, exist_ok=True)
        done = set()
        for v in rep.violations:
            if v["sig"] in known and v["sig"] not in done:
                done.add(v["sig"])
                k = sorted(known).index(v["sig"]) + 1
                (Path(wdir) / f"{prop}-finding-{k}.json").write_text(json.dumps(
                    {"property": prop, "sig": v["sig"], "what": known[v["sig"]],
                     "case": F.jsonable(v["case"]), "detail": F.jsonable(v["detail"])}, indent=1) + "\n")
    unlisted = {s: n for s, n in rep.viol_sigs.items() if s not in known}
    n_new = sum(unlisted.values())
    first_path = None
    if unlisted:
        rdir = F.VERIF / "replays"
        rdir.mkdir(exist_ok=True)
        k = 0
        for v in rep.violations:
            if v["sig"] in known:
                continue
            k += 1
            p = rdir / f"{prop}-{ctx.tier}-{k:02d}.json"
            p.write_text(json.dumps(
                {"property": prop, "tier": ctx.tier, "seed": ctx.seed,
                 "sig": v["sig"], "case": F.jsonable(v["case"]),
                 **({"history": v["history"]} if v.get("history") else {}),
                 "detail": F.jsonable(v["detail"])}, indent=1) + "\n")
            new.append(v)
            if first_path is None:
                first_path = p
    F.write_evidence(
        ctx, level=mod.LEVEL, rep=rep, rule=meta["rule"], bounds=meta["bounds"],
        assumptions=meta.get("assumptions", []),
        exhaustive=meta.get("exhaustive", True), wall_s=wall,
        new_violations=n_new, known_seen=known_seen, extra=meta.get("extra"))
    line = (f"{prop} tier={ctx.tier} seed={ctx.seed} evaluations={rep.evaluations} "
            f"nontrivial={len(rep.nontrivial) + rep.nontrivial_n} outcomes={len(rep.outcomes)}")
    if mod.LEVEL == "model_checking":
        line += (f" states={len(rep.states)} transitions={rep.transitions} "
                 f"traces={rep.traces}")
    line += (f" twice={rep.replayed_twice} caps={len(rep.caps)} "
             f"wall={wall:.1f}s")
    print(line)
    if n_new:
        for s, n in sorted(unlisted.items()):
            print(f"  unlisted violation class: {s} ({n} cases)")
        v = new[0]
        print("  first: " + json.dumps(F.jsonable({k: x for k, x in v.items() if k != "history"}))[:1500])
        print(f"VIOLATION property={prop} replay={first_path}")
        return 1
    return 0


if __name__ == "__main__":
    sys.exit(main(sys.argv[1:]))
