"""One long-lived `zorg edit` process: the editor is opened, closed with the keep-alive file in
place, zorg reindexes IN THE SAME PROCESS and opens the editor again, and so on.

`zorg edit` is the one command whose process outlives a single index operation, so anything zorg
keeps in memory between two reindex runs (a memo, a cached date, the order of queued messages)
can only show here.  The editor is an external program and is stubbed: `vimala.vim` is replaced,
in the forked child that runs the command, by a function that plays a scripted user -- it
records what the files given to the editor look like when it "opens", applies that session's
edits, may let the frozen clock pass midnight while the editor is open, and leaves (or does not
leave) the keep-alive file behind.  Everything else is the real code: templates, the message bus,
the reindex, the ZID / modify-date write-back, the refresh of saved-query pages.
"""

from __future__ import annotations

import datetime as dt
import shutil
from pathlib import Path
from typing import Any, Optional, Sequence

from . import harness as H
from . import zdir as Z


def _read(p: Path) -> str:
    with p.open("r", newline="", encoding="utf-8", errors="surrogateescape") as f:
        return f.read()


def _apply(zd: Path, op: Sequence[Any]) -> None:
    """One edit the scripted user makes to the files AS THEY ARE while the editor is open:
    ["write", rel, text] | ["append", rel, text] | ["insert_before", rel, needle, line] (a new line in
    front of the first line that contains needle) | ["replace", rel, old, new] | ["delete", rel]."""
    kind, rel = op[0], op[1]
    p = zd / rel
    if kind == "write":
        p.parent.mkdir(parents=True, exist_ok=True)
        Z.write_text(p, op[2])
    elif kind == "append":
        Z.write_text(p, _read(p) + op[2])
    elif kind == "insert_before":
        lines = _read(p).split("\n")
        k = next(i for i, l in enumerate(lines) if op[2] in l)
        Z.write_text(p, "\n".join(lines[:k] + [op[3]] + lines[k:]))
    elif kind == "replace":
        t = _read(p)
        if op[2] not in t:
            raise H.HarnessError(f"edit session: {op[2]!r} not in {rel}")
        Z.write_text(p, t.replace(op[2], op[3], 1))
    elif kind == "delete":
        p.unlink()
    else:
        raise H.HarnessError(f"edit session: unknown op {op!r}")


def _child(zdir_s: str, cfg_s: str, paths: Sequence[str], sessions: Sequence[dict], day_iso: str,
           snap_root_s: Optional[str]) -> dict:
    import zorg.service.handlers as handlers

    zd = Path(zdir_s)
    keep = Path(cfg_s).parent / "keep-alive"
    state = {"k": 0, "day": dt.date.fromisoformat(day_iso)}
    opened: list = []

    class _Done:
        def unwrap(self) -> None:
            return None

    def fake_vim(*args: Any, **kw: Any) -> _Done:
        k = state["k"]
        state["k"] += 1
        seen = {}
        for a in args:
            p = Path(str(a))
            if p.is_file():
                with p.open("r", newline="", encoding="utf-8", errors="surrogateescape") as f:
                    seen[str(p.relative_to(zd)) if str(p).startswith(str(zd) + "/") else str(p)] = f.read()
        opened.append(seen)
        if snap_root_s:
            # the notes directory exactly as it is while the editor is open (index included)
            shutil.copytree(zd, Path(snap_root_s) / f"open-{k}" / "org")
        if k < len(sessions):
            s = sessions[k]
            for op in s.get("ops") or []:
                _apply(zd, op)
            if s.get("advance_days"):
                # the editor stays open past midnight
                state["day"] = state["day"] + dt.timedelta(days=int(s["advance_days"]))
                H.freeze(state["day"])
            if s.get("keep"):
                keep.write_text("")
        return _Done()

    handlers.vimala.vim = fake_vim  # type: ignore[attr-defined]
    code = H._cli_entry(["zorg", "-c", cfg_s, "--dir", H.spelled(zd), "edit", *paths])
    return {"exit": code, "opened": opened, "sessions_run": state["k"], "last_day": state["day"].isoformat()}


def run(zd: Path, paths: Sequence[str], sessions: Sequence[dict], day: dt.date, *, snapshots: bool = False,
        extra_cfg: Optional[dict] = None) -> H.ChildResult:
    """`zorg edit PATHS` in ONE forked process with len(sessions) scripted editor sessions
    (session k = {"ops": [...], "advance_days": n, "keep": bool}; its edits are made while the editor is open
    for the k-th time; "keep": True makes zorg
    reindex and open the editor again).  value = {"exit", "opened": [files as the editor saw them,
    per session], "sessions_run", "last_day"}; with snapshots=True the directory is copied to
    <scratch>/open-k/org every time the editor opens."""
    cfg = zd.parent / "edit.cfg.yml"
    H.write_config(cfg, keep_alive_file=str(zd.parent / "keep-alive"), vim_exe="true", **(extra_cfg or {}))
    keep = zd.parent / "keep-alive"
    if keep.exists():
        keep.unlink()
    snap_root = str(zd.parent) if snapshots else None
    return H.run_child(_child, str(zd), str(cfg), list(paths), list(sessions), day.isoformat(), snap_root, day=day,
                       timeout=300.0)
