"""Well-formedness gate for query strings, built from the repository's own
generated lexer/parser with private error listeners.

A string is well-formed iff the lexer reports no error, the parser reports no
syntax error, and the parser consumed all input (`prog` has no EOF, so trailing
text would otherwise be ignored silently)."""

from __future__ import annotations

import antlr4
from antlr4.error.ErrorListener import ErrorListener


class _Collect(ErrorListener):
    def __init__(self) -> None:
        super().__init__()
        self.errors: list[str] = []

    def syntaxError(self, recognizer, offendingSymbol, line, column, msg, e):  # noqa: N802
        self.errors.append(f"{line}:{column} {msg}")


def wellformed(q: str) -> tuple[bool, str]:
    from zorg.grammar.zorg_query.ZorgQueryLexer import ZorgQueryLexer
    from zorg.grammar.zorg_query.ZorgQueryParser import ZorgQueryParser

    lx = ZorgQueryLexer(antlr4.InputStream(q))
    le = _Collect()
    lx.removeErrorListeners()
    lx.addErrorListener(le)
    ts = antlr4.CommonTokenStream(lx)
    ps = ZorgQueryParser(ts)
    pe = _Collect()
    ps.removeErrorListeners()
    ps.addErrorListener(pe)
    ps.prog()
    if le.errors:
        return False, "lexer: " + le.errors[0]
    if pe.errors or ps.getNumberOfSyntaxErrors():
        return False, "parser: " + (pe.errors[0] if pe.errors else "syntax errors")
    if ts.LA(1) != antlr4.Token.EOF:
        return False, f"trailing input at token {ts.index}: {ts.LT(1).text!r}"
    return True, ""
