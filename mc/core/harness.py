"""Shared machinery: real clock, scratch space, frozen time, forked children,
a deterministic parallel map, and helpers to drive the real zorg code.

Nothing in here knows about any particular property.
"""

from __future__ import annotations

import atexit
import datetime as dt
import hashlib
import io
import json
import os
import pickle
import shutil
import signal
import sys
import tempfile
import time
import traceback
from pathlib import Path
from typing import Any, Callable, Iterable, Optional, Sequence


# --------------------------------------------------------------------------
# real clock (freezegun patches module-level references to time functions, so
# the real one is kept inside a container it does not look into)
# --------------------------------------------------------------------------
class _Clock:
    fns = [time.perf_counter]


def now() -> float:
    return _Clock.fns[0]()


# --------------------------------------------------------------------------
# scratch space (tmpfs), one directory per run, removed at exit
# --------------------------------------------------------------------------
_SCRATCH_ROOT: Optional[Path] = None
_OWNER_PID: Optional[int] = None


def scratch_root() -> Path:
    global _SCRATCH_ROOT, _OWNER_PID
    if _SCRATCH_ROOT is None:
        base = "/dev/shm" if os.access("/dev/shm", os.W_OK) else None
        _SCRATCH_ROOT = Path(tempfile.mkdtemp(prefix="zorgverif-", dir=base))
        _OWNER_PID = os.getpid()
        atexit.register(_cleanup_scratch)
    return _SCRATCH_ROOT


def _cleanup_scratch() -> None:
    if _SCRATCH_ROOT is not None and os.getpid() == _OWNER_PID:
        shutil.rmtree(_SCRATCH_ROOT, ignore_errors=True)


_counter = [0]


def new_dir(tag: str = "d") -> Path:
    """A fresh empty directory under the scratch root (unique per process)."""
    _counter[0] += 1
    p = scratch_root() / f"{tag}-{os.getpid()}-{_counter[0]}"
    p.mkdir(parents=True)
    return p


def rm(path: Path) -> None:
    shutil.rmtree(path, ignore_errors=True)


# --------------------------------------------------------------------------
# the code under test must come from /repo/src
# --------------------------------------------------------------------------
REPO_SRC = os.path.realpath(os.environ.get("VERIF_REPO", "/repo")) + "/src/"
VERIF_ROOT = os.path.dirname(os.path.dirname(os.path.dirname(os.path.realpath(__file__)))) + "/"


def assert_repo_source() -> str:
    import zorg

    f = os.path.realpath(zorg.__file__)
    if not f.startswith(REPO_SRC):
        raise HarnessError(f"zorg imported from {f}, not {REPO_SRC}")
    return f


def quiet_logging() -> None:
    """zorg logs through logrus/structlog to stderr; the checks read results,
    not logs, so in-process calls are silenced (CLI children keep their stderr,
    which is captured)."""
    import logging

    logging.disable(logging.CRITICAL)


def quiet_stderr() -> None:
    """Workers: drop what the code under test prints to stderr in-process (ANTLR's
    console error listener reports every lexer error there). Harness errors of
    a worker travel through its result file, not stderr. VERIF_DEBUG=1 keeps it."""
    if os.environ.get("VERIF_DEBUG"):
        return
    dn = os.open(os.devnull, os.O_WRONLY)
    os.dup2(dn, 2)
    os.close(dn)


def preload() -> None:
    """Import everything zorg needs once, in the parent, so forked children
    start with warm modules (a CLI call then costs ~0.1 s instead of ~1 s)."""
    import zorg.app.__main__  # noqa: F401
    import zorg.service.swog  # noqa: F401
    import zorg.service.note_utils  # noqa: F401
    import zorg.service.messagebus  # noqa: F401
    import zorg.storage.sql  # noqa: F401
    import freezegun  # noqa: F401
    import yaml  # noqa: F401


class HarnessError(Exception):
    """A problem of the verification machinery itself (never a violation)."""


# --------------------------------------------------------------------------
# frozen time: one freezer per process, moved per execution
# --------------------------------------------------------------------------
_FREEZER: list[Any] = [None, None]
DEFAULT_DAY = dt.date(2024, 5, 15)
# The zone the frozen clock pretends to be in: [hours east of UTC, local hour, local minute].
# The default is a UTC machine at noon.  A check that wants "the local calendar day is not the
# UTC calendar day" (an evening west of UTC, a night east of it) calls set_zone() around a case;
# `day` handed to freeze() always is the LOCAL calendar day, which is what zorg means by today.
_ZONE: list[int] = [0, 12, 0]
ZONES = {"utc-noon": (0, 12, 0), "east-night": (2, 0, 30), "west-evening": (-8, 19, 30)}


def set_zone(name: str = "utc-noon") -> None:
    _ZONE[:] = ZONES[name]


def _faithful_now() -> None:
    """freezegun adds tz_offset to datetime.now(tz) as well, so under it an aware 'now in UTC'
    shows the local wall clock; the stand-in is made faithful: an aware now() is the frozen UTC
    instant expressed in that zone, a naive now()/today() is local time."""
    import freezegun.api as fa

    if getattr(fa.FakeDatetime, "_verif_faithful", False):
        return

    def now(cls, tz=None):  # type: ignore[no-untyped-def]
        cur = cls._time_to_freeze() or fa.real_datetime.now()
        if tz:
            result = tz.fromutc(cur.replace(tzinfo=tz))
        else:
            result = cur + cls._tz_offset()
        return fa.datetime_to_fakedatetime(result)

    fa.FakeDatetime.now = classmethod(now)  # type: ignore[method-assign]
    fa.FakeDatetime._verif_faithful = True  # type: ignore[attr-defined]


def freeze(day: dt.date, hour: Optional[int] = None) -> None:
    """Freeze (or move) this process's clock so that the LOCAL time is `day` at the zone's hour
    (or `hour`):minute; the UTC instant is that minus the zone's offset."""
    from freezegun import freeze_time
    import freezegun.api as fa

    _faithful_now()
    shift, h, m = _ZONE
    if hour is not None:
        h = hour
    local = dt.datetime(day.year, day.month, day.day, h, m, 0)
    stamp = local - dt.timedelta(hours=shift)
    if _FREEZER[0] is None:
        f = freeze_time(stamp, tz_offset=shift)
        _FREEZER[1] = f.start()
        _FREEZER[0] = f
    else:
        _FREEZER[1].move_to(stamp)
        fa.tz_offsets[-1] = dt.timedelta(hours=shift)


def unfreeze() -> None:
    if _FREEZER[0] is not None:
        _FREEZER[0].stop()
        _FREEZER[0] = None
        _FREEZER[1] = None


# --------------------------------------------------------------------------
# run a callable in a forked child (one OS process per zorg command)
# --------------------------------------------------------------------------
class ChildResult:
    __slots__ = ("status", "value", "exc", "tb", "out", "err", "exitcode")

    def __init__(self) -> None:
        self.status = "ok"  # ok | exc | killed | timeout | sysexit
        self.value: Any = None
        self.exc: Optional[str] = None
        self.tb: Optional[str] = None
        self.out = ""
        self.err = ""
        self.exitcode: Optional[int] = None

    def brief(self) -> dict[str, Any]:
        return {
            "status": self.status,
            "value": self.value if _jsonable(self.value) else repr(self.value),
            "exc": self.exc,
            "out": self.out[-2000:],
            "err": self.err[-2000:],
        }


def _jsonable(v: Any) -> bool:
    try:
        json.dumps(v)
        return True
    except Exception:
        return False


def private_template_dir() -> Any:
    """zorg keeps ONE class-level TemporaryDirectory for rendering templates, made when
    zorg.service.templates is imported.  Processes forked after the import would all
    render through that one directory (same file names, concurrent writes) - a race that
    separate real zorg processes never have.  Give this process a directory of its own."""
    mod = sys.modules.get("zorg.service.templates")
    if mod is None:
        return None
    import tempfile

    old = getattr(mod.ZorgTemplateManager, "tmp_dir", None)
    fin = getattr(old, "_finalizer", None)
    if fin is not None:
        # the inherited object belongs to the process we were forked from: dropping our copy
        # of it must not delete that process's directory
        fin.detach()
    td = tempfile.TemporaryDirectory(prefix=f"tmpl-{os.getpid()}-", dir=str(scratch_root()))
    mod.ZorgTemplateManager.tmp_dir = td
    return td


def run_child(
    fn: Callable[..., Any],
    *args: Any,
    day: Optional[dt.date] = None,
    timeout: float = 120.0,
    capture: bool = True,
    **kwargs: Any,
) -> ChildResult:
    """Run fn(*args) in a forked child; return its value / exception / output.

    The child inherits the imported zorg modules (no re-import cost) but none of
    its effects on process-global state survive (engine cache, zprint counter,
    template temp dir, ...), which is what one CLI invocation per process gives
    a real user.
    """
    r_fd, w_fd = os.pipe()
    out_path = err_path = None
    if capture:
        d = scratch_root()
        _counter[0] += 1
        out_path = d / f"out-{os.getpid()}-{_counter[0]}"
        err_path = d / f"err-{os.getpid()}-{_counter[0]}"
    sys.stdout.flush()
    sys.stderr.flush()
    pid = os.fork()
    if pid == 0:
        code = 0
        try:
            os.close(r_fd)
            if capture:
                o = os.open(out_path, os.O_WRONLY | os.O_CREAT | os.O_TRUNC, 0o600)
                e = os.open(err_path, os.O_WRONLY | os.O_CREAT | os.O_TRUNC, 0o600)
                os.dup2(o, 1)
                os.dup2(e, 2)
                sys.stdout = io.TextIOWrapper(
                    os.fdopen(1, "wb", closefd=False), write_through=True
                )
                sys.stderr = io.TextIOWrapper(
                    os.fdopen(2, "wb", closefd=False), write_through=True
                )
            devnull = os.open(os.devnull, os.O_RDONLY)
            os.dup2(devnull, 0)
            if day is not None:
                freeze(day)
            payload: tuple[str, Any, Any, Any]
            td = private_template_dir()
            try:
                val = fn(*args, **kwargs)
                payload = ("ok", val, None, None)
            except SystemExit as se:
                payload = ("sysexit", se.code, None, None)
            except BaseException as ex:  # noqa: BLE001
                payload = (
                    "exc",
                    None,
                    f"{type(ex).__name__}: {ex}",
                    traceback.format_exc(),
                )
            try:
                data = pickle.dumps(payload)
            except Exception as pe:  # unpicklable return value
                data = pickle.dumps(
                    ("exc", None, f"HarnessPickleError: {pe}", None)
                )
            with os.fdopen(w_fd, "wb") as w:
                w.write(data)
            if td is not None:
                shutil.rmtree(td.name, ignore_errors=True)
            try:
                sys.stdout.flush()
                sys.stderr.flush()
            except Exception:
                pass
        except BaseException:  # noqa: BLE001
            code = 97
        finally:
            os._exit(code)
    os.close(w_fd)
    res = ChildResult()
    chunks = []
    deadline = now() + timeout
    import select

    timed_out = False
    with os.fdopen(r_fd, "rb") as r:
        while True:
            left = deadline - now()
            if left <= 0:
                timed_out = True
                break
            ready, _, _ = select.select([r], [], [], min(left, 5.0))
            if ready:
                b = os.read(r.fileno(), 1 << 16)
                if not b:
                    break
                chunks.append(b)
    if timed_out:
        try:
            os.kill(pid, signal.SIGKILL)
        except ProcessLookupError:
            pass
    _, st = os.waitpid(pid, 0)
    res.exitcode = os.waitstatus_to_exitcode(st)
    if timed_out:
        res.status = "timeout"
    elif chunks:
        try:
            status, val, exc, tb = pickle.loads(b"".join(chunks))
            res.status, res.value, res.exc, res.tb = status, val, exc, tb
        except Exception as e:  # noqa: BLE001
            res.status, res.exc = "killed", f"unreadable child payload: {e}"
    else:
        res.status = "killed"
    if capture:
        try:
            res.out = Path(out_path).read_text(errors="replace")
            res.err = Path(err_path).read_text(errors="replace")
        finally:
            for p in (out_path, err_path):
                try:
                    os.unlink(p)
                except OSError:
                    pass
    return res


# --------------------------------------------------------------------------
# drive the real CLI
# --------------------------------------------------------------------------
def write_config(path: Path, **cfg: Any) -> Path:
    import yaml

    with open(path, "w") as f:
        yaml.dump(dict(cfg), f, allow_unicode=True)
    return path


# The working directory a CLI command is started from (None: wherever the harness happens to be).
# A check sets it around a case; nothing a command does with an absolute --dir may depend on it.
_CLI_CWD: list[Optional[str]] = [None]


def set_cli_cwd(path: Optional[Any] = None) -> None:
    _CLI_CWD[0] = None if path is None else str(path)


def _cli_entry(argv: Sequence[str]) -> int:
    import logging

    from zorg.app.__main__ import main

    if _CLI_CWD[0] is not None:
        os.chdir(_CLI_CWD[0])

    logging.disable(logging.NOTSET)  # a CLI child logs like a real invocation

    return main(list(argv))


# How the notes directory is spelled on the command line: its canonical absolute path (default),
# through a symlink, or with a '..' in it -- the same directory every time, so nothing a command
# does may depend on the spelling.  A check sets it around a case (set_dir_spelling).
_DIR_SPELLING: list[str] = ["canonical"]
DIR_SPELLINGS = ("canonical", "symlink", "dotdot")


def set_dir_spelling(name: str = "canonical") -> None:
    if name not in DIR_SPELLINGS:
        raise HarnessError(name)
    _DIR_SPELLING[0] = name


def spelled(zdir: Path) -> str:
    how = _DIR_SPELLING[0]
    if how == "symlink":
        link = zdir.parent / (zdir.name + "-lnk")
        if not link.is_symlink():
            link.symlink_to(zdir)
        return str(link)
    if how == "dotdot":
        (zdir.parent / "x").mkdir(exist_ok=True)
        return f"{zdir.parent}/x/../{zdir.name}"
    return str(zdir)


def run_cli(
    zdir: Path,
    *args: str,
    day: Optional[dt.date] = None,
    cfg: Optional[Path] = None,
    timeout: float = 120.0,
) -> ChildResult:
    """`zorg --dir ZDIR ARGS...` in a fresh forked process."""
    if cfg is None:
        cfg = zdir.parent / f"{zdir.name}.cfg.yml"
        if not cfg.exists():
            write_config(cfg)
    argv = ["zorg", "-c", str(cfg), "--dir", spelled(zdir), *args]
    return run_child(_cli_entry, argv, day=day, timeout=timeout)


def db_url(zdir: Path) -> str:
    return f"sqlite:///{zdir}/.zorg/zorg.db"


# --------------------------------------------------------------------------
# deterministic parallel map
# --------------------------------------------------------------------------
def n_workers() -> int:
    env = os.environ.get("VERIF_WORKERS")
    if env:
        return max(1, int(env))
    return max(1, min(16, os.cpu_count() or 1))


def fold_width(workers: Optional[int], n_cases: int) -> int:
    """Number of worker processes parallel_fold uses (case i -> worker i mod W)."""
    W = workers or n_workers()
    return max(1, min(W, n_cases or 1))


def parallel_fold(
    cases: Sequence[Any],
    work: Callable[[int, Any], Any],
    new_acc: Callable[[], Any],
    fold: Callable[[Any, int, Any, Any], None],
    merge: Callable[[Any, Any], None],
    *,
    workers: Optional[int] = None,
    init: Optional[Callable[[], None]] = None,
    progress: Optional[str] = None,
) -> Any:
    """Run work(i, case) for every case; case i goes to worker i mod W.

    Each worker folds its results into a private accumulator (fold(acc, i, case,
    result)); accumulators come back to the parent and are merged in worker
    order, so the final value does not depend on scheduling.
    """
    W = fold_width(workers, len(cases))
    root = scratch_root()
    parts = []
    pids = []
    sys.stdout.flush()
    sys.stderr.flush()
    for w in range(W):
        part = root / f"part-{os.getpid()}-{w}.pkl"
        parts.append(part)
        pid = os.fork()
        if pid == 0:
            code = 0
            try:
                private_template_dir()
                if init:
                    init()
                acc = new_acc()
                for i in range(w, len(cases), W):
                    res = work(i, cases[i])
                    fold(acc, i, cases[i], res)
                with open(part, "wb") as f:
                    pickle.dump(("ok", acc), f)
            except BaseException:  # noqa: BLE001
                code = 98
                try:
                    with open(part, "wb") as f:
                        pickle.dump(("err", traceback.format_exc()), f)
                except Exception:
                    pass
            finally:
                try:
                    sys.stdout.flush()
                    sys.stderr.flush()
                except Exception:
                    pass
                os._exit(code)
        pids.append(pid)
    total = new_acc()
    errors = []
    for w, pid in enumerate(pids):
        _, st = os.waitpid(pid, 0)
        code = os.waitstatus_to_exitcode(st)
        try:
            with open(parts[w], "rb") as f:
                tag, acc = pickle.load(f)
        except Exception as e:  # noqa: BLE001
            errors.append(f"worker {w} exit={code} produced no result: {e}")
            continue
        finally:
            try:
                os.unlink(parts[w])
            except OSError:
                pass
        if tag != "ok":
            errors.append(f"worker {w} crashed:\n{acc}")
            continue
        merge(total, acc)
    if errors:
        raise HarnessError("\n".join(errors))
    return total


def digest(obj: Any) -> str:
    """Short stable hash of a JSON-able (or repr-able) observation."""
    try:
        s = json.dumps(obj, sort_keys=True, default=repr)
    except Exception:
        s = repr(obj)
    return hashlib.sha1(s.encode("utf-8", "replace")).hexdigest()[:16]


def rotate(pool: Sequence[Any], seed: int) -> list[Any]:
    """Seed-dependent rotation of a vetted pool (never changes its members)."""
    if not pool:
        return list(pool)
    k = seed % len(pool)
    return list(pool[k:]) + list(pool[:k])
