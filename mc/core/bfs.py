"""Explicit-state breadth-first search over histories on real directories.

A state is a notes directory on tmpfs (files + .zorg) plus the calendar day and a
small tuple of guard counters.  `step(state, event)` (run in a worker) copies the
directory, applies the event with the real code, and returns the successor with
its canonical key and the verdict of the invariant; the parent deduplicates on
the key, level by level, so the search is deterministic and exhaustive up to the
depth bound.
"""

from __future__ import annotations

import datetime as dt
import shutil
from dataclasses import dataclass, field
from pathlib import Path
from typing import Any, Callable, Optional, Sequence

from . import framework as F
from . import harness as H


@dataclass
class St:
    path: str  # directory of this state (owned by the search)
    day: dt.date
    hist: list
    guards: dict = field(default_factory=dict)
    key: str = ""
    extra: dict = field(default_factory=dict)


@dataclass
class StepResult:
    state: Optional[St]  # None: event not enabled
    problem: Optional[tuple] = None  # (sig, detail)
    judged: bool = False
    transitions: int = 0
    nontrivial: bool = False


def search(
    ctx: F.Ctx,
    inits: Sequence[St],
    events: Sequence[str],
    step: Callable[[St, str], StepResult],
    depth: int,
    *,
    max_states: Optional[int] = None,
) -> F.Report:
    rep = F.Report()
    seen: dict[str, list] = {}
    frontier: list[St] = []
    for s in inits:
        if s.key not in seen:
            seen[s.key] = list(s.hist)
            frontier.append(s)
    rep.states.update(seen.keys())
    level = 0
    while frontier and level < depth:
        # event-major order: the expensive events (reindex + oracle) of different
        # states land on different workers (state-major order sends every task
        # of one event to one worker when len(events) is a multiple of W)
        tasks = [(si, ev) for ev in events for si in range(len(frontier))]

        def work(i, t):
            return step(frontier[t[0]], t[1])

        def fold(acc, i, t, r):
            acc.append((i, r))

        def merge(total, part):
            total.extend(part)

        def init():
            H.quiet_logging()
            H.quiet_stderr()
            H.freeze(H.DEFAULT_DAY)

        results = H.parallel_fold(tasks, work, list, fold, merge, workers=ctx.workers, init=init)
        order = {t: (t[0], events.index(t[1])) for t in tasks}
        results.sort(key=lambda x: order[tasks[x[0]]])
        nxt: list[St] = []
        for i, r in results:
            if r.state is None:
                continue
            rep.transitions += r.transitions or 1
            rep.evaluations += 1
            if r.judged:
                rep.traces += 1
            if r.nontrivial:
                rep.nontrivial.add(r.state.key)
            rep.outcomes.add(r.state.key)
            if r.problem:
                sig, detail = r.problem
                rep.n_violations += 1
                rep.viol_sigs[sig] = rep.viol_sigs.get(sig, 0) + 1
                per = sum(1 for v in rep.violations if v["sig"] == sig)
                if per < 3 and len(rep.violations) < F.MAX_KEPT_VIOLATIONS:
                    rep.violations.append({"index": len(rep.violations), "case": {"init": r.state.extra.get("init"), "history": r.state.hist},
                                           "detail": detail, "sig": sig})
            if r.state.key in seen:
                shutil.rmtree(Path(r.state.path).parent, ignore_errors=True)
                continue
            seen[r.state.key] = list(r.state.hist)
            rep.states.add(r.state.key)
            # a state in which the invariant already failed is not expanded further
            if r.problem:
                shutil.rmtree(Path(r.state.path).parent, ignore_errors=True)
                continue
            nxt.append(r.state)
        for s in frontier:
            shutil.rmtree(Path(s.path).parent, ignore_errors=True)
        frontier = nxt
        level += 1
        rep.add_counter(f"states_after_depth_{level}", len(seen))
        if max_states and len(seen) > max_states and level < depth:
            rep.caps.append(f"state cap {max_states} reached after depth {level} (requested depth {depth})")
            break
    for s in frontier:
        shutil.rmtree(Path(s.path).parent, ignore_errors=True)
    rep.add_counter("max_depth_completed", level)
    if len(rep.samples) < 3:
        for k, h in list(seen.items())[-3:]:
            rep.samples.append({"history": h})
    return rep
