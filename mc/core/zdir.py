"""Scratch notes directories and the real index commands run on them."""

from __future__ import annotations

import datetime as dt
import os
import shutil
from pathlib import Path
from typing import Iterable, Optional

from . import harness as H


def make_zdir(files: dict[str, str], tag: str = "zd") -> Path:
    """New scratch notes directory <scratch>/<tag>-N/org holding `files`."""
    root = H.new_dir(tag)
    zdir = root / "org"
    zdir.mkdir()
    for rel, text in files.items():
        p = zdir / rel
        p.parent.mkdir(parents=True, exist_ok=True)
        write_text(p, text)
    return zdir


def write_text(p: Path, text) -> None:
    """Byte-exact write: no newline translation; a lone surrogate \\udcXX stands for the raw byte
    XX (so contents that are not valid UTF-8 can be written, snapshotted and replayed from JSON)."""
    if isinstance(text, bytes):
        p.write_bytes(text)
    else:
        with p.open("w", newline="", encoding="utf-8", errors="surrogateescape") as f:
            f.write(text)


def drop(zdir: Path) -> None:
    H.rm(zdir.parent)


def copy_zdir(src: Path, *, with_index: bool = True, tag: str = "zc") -> Path:
    root = H.new_dir(tag)
    dst = root / "org"
    ignore = None if with_index else shutil.ignore_patterns(".zorg")
    shutil.copytree(src, dst, ignore=ignore)
    return dst


def snapshot(zdir: Path, *, with_meta: bool = True) -> dict[str, str]:
    """All user files (and the JSON/text stores of .zorg) as {relpath: text}."""
    out: dict[str, str] = {}
    for p in sorted(zdir.rglob("*")):
        if not p.is_file():
            continue
        rel = str(p.relative_to(zdir))
        if rel.startswith(".zorg/"):
            if not with_meta or not rel.endswith((".json", ".txt")):
                continue
        # byte-exact: no universal-newline translation of \r\n or a lone \r
        with p.open("r", newline="", encoding="utf-8", errors="surrogateescape") as f:
            out[rel] = f.read()
    return out


def restore(zdir: Path, snap: dict[str, str]) -> None:
    for rel, text in snap.items():
        p = zdir / rel
        p.parent.mkdir(parents=True, exist_ok=True)
        write_text(p, text)


def db_create(zdir: Path, day: dt.date, *, force: bool = False) -> H.ChildResult:
    args = ["db", "create"] + (["-f"] if force else [])
    return H.run_cli(zdir, *args, day=day)


def db_reindex(zdir: Path, day: dt.date, paths: Iterable[str] = ()) -> H.ChildResult:
    return H.run_cli(zdir, "db", "reindex", *[str(p) for p in paths], day=day)


def cli_ok(r: H.ChildResult) -> bool:
    return r.status == "ok" and r.value == 0
