"""Canonical plain-data form of the real `Query` object (attribute access only;
no zorg function computes anything here)."""

from __future__ import annotations

from typing import Any


def canon_select(s: Any):
    tn = type(s).__name__
    if tn == "SelectAggregation":
        return ("agg", s.func_name, canon_select(s.select_type))
    if tn == "SelectPropertyValues":
        return ("propvals", s.key)
    return ("static", s.name)


def _tags(strs) -> list:
    out = []
    for t in strs:
        if t.startswith("-"):
            out.append((t[1:], True))
        else:
            out.append((t, False))
    return sorted(out, key=repr)


def canon_and(f: Any) -> dict:
    return {
        "types": sorted((t.name for t in f.allowed_note_types), key=repr),
        "prios": sorted(f.priorities, key=repr),
        "areas": _tags(f.areas),
        "contexts": _tags(f.contexts),
        "people": _tags(f.people),
        "projects": _tags(f.projects),
        "create": sorted(
            ((r.start.isoformat(), r.end.isoformat() if r.end else None) for r in f.create_date_ranges),
            key=repr),
        "modify": sorted(
            ((r.start.isoformat(), r.end.isoformat() if r.end else None) for r in f.modify_date_ranges),
            key=repr),
        "props": sorted(
            ((p.key, p.value, p.op.name, None if p.op.name == "EXISTS" else p.value_type.name, bool(p.negated))
             for p in f.property_filters), key=repr),
        "descs": sorted(((d.value, d.case_sensitive, d.op.name) for d in f.desc_filters), key=repr),
        "files": sorted(((x.path_glob, bool(x.negated)) for x in f.file_filters), key=repr),
        "links": sorted(((x.link, bool(x.negated)) for x in f.link_filters), key=repr),
        "subs": [canon_or(o) for o in f.or_filters],
    }


def canon_or(o: Any) -> list:
    return [canon_and(a) for a in o.and_filters]


def canon_query(q: Any) -> dict:
    return {
        "select": canon_select(q.select),
        "where": canon_or(q.where) if q.where is not None else None,
        "order": [o.name for o in q.order_by],
        "group": [g.name for g in q.group_by],
    }
