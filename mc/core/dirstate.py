"""Views of a notes directory: recompiled pages (through the real compiler) in the
same shape M3 gives for the index, and a canonical state digest."""

from __future__ import annotations

from pathlib import Path
from typing import Any, Optional

from . import harness as H
from . import zo
from . import zdir as Z
from ..models import index_reader as IR

CMP_FIELDS = ("kind", "priority", "body", "line", "zid", "create", "modify", "areas", "contexts",
              "people", "projects", "links", "props", "section", "block")


def compiled_pages(zdir: Path) -> dict[str, Any]:
    """{relpath: {"has_errors", "exc", "notes": [...]}} for every *.zo file."""
    out: dict[str, Any] = {}
    for p in sorted(zdir.rglob("*.zo")):
        rel = str(p.relative_to(zdir))
        r = zo.compile_path(zdir, p)
        notes = []
        for n in r["notes"]:
            d = {k: n.get(k) for k in CMP_FIELDS}
            d["page"] = rel
            notes.append(d)
        notes.sort(key=lambda d: (d["line"], d["zid"] or ""))
        out[rel] = {"has_errors": r["has_errors"], "exc": r["exc"], "notes": notes}
    return out


def diff_index_vs_files(index: dict, compiled: dict) -> Optional[dict]:
    """First disagreement between the index (M3 dump) and the recompiled files."""
    ip, cp = index["pages"], compiled
    if sorted(ip) != sorted(cp):
        return {"what": "page-set", "index": sorted(ip), "files": sorted(cp)}
    for page in sorted(cp):
        a, b = ip[page]["notes"], cp[page]["notes"]
        if len(a) != len(b):
            return {"what": "note-count", "page": page, "index": len(a), "files": len(b),
                    "index_zids": [n["zid"] for n in a], "file_zids": [n["zid"] for n in b]}
        for x, y in zip(a, b):
            for f in CMP_FIELDS:
                if x.get(f) != y.get(f):
                    return {"what": f, "page": page, "zid": y.get("zid"), "index": x.get(f), "files": y.get(f)}
    return None


def index_value(zdir: Path) -> dict:
    return IR.read_index(zdir)


def state_digest(zdir: Path, day=None) -> str:
    snap = Z.snapshot(zdir)
    idx = IR.read_index(zdir)
    return H.digest([sorted(snap.items()), idx["pages"], idx["problems"], str(day)])
