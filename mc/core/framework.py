"""Check protocol, exhaustive case exploration, reports and evidence."""

from __future__ import annotations

import dataclasses
import json
import os
from dataclasses import dataclass, field
from pathlib import Path
from typing import Any, Callable, Optional, Sequence

from . import harness as H

VERIF = Path(__file__).resolve().parents[2]
MAX_KEPT_VIOLATIONS = 40
MAX_SAMPLES = 6


@dataclass
class Outcome:
    """What one explored case produced."""

    ok: bool = True
    obs: str = ""  # digest of the observation (distinct outcomes, determinism)
    nontrivial: Optional[str] = None  # key of the non-trivial class, if any
    detail: Optional[dict] = None  # expected / observed, when not ok
    sig: Optional[str] = None  # signature used to attribute known findings
    states: tuple = ()  # model/state keys visited by this case
    transitions: int = 0
    counters: Optional[dict] = None  # extra named counters
    n_evals: int = 1  # a case may bundle many distinct evaluations
    n_nontrivial: int = 0  # distinct-by-construction non-trivial evaluations


@dataclass
class Report:
    evaluations: int = 0
    nontrivial_n: int = 0
    nontrivial: set = field(default_factory=set)
    outcomes: set = field(default_factory=set)
    states: set = field(default_factory=set)
    transitions: int = 0
    traces: int = 0
    violations: list = field(default_factory=list)  # dicts: case, detail, sig
    n_violations: int = 0
    viol_sigs: dict = field(default_factory=dict)  # sig -> count
    samples: list = field(default_factory=list)
    counters: dict = field(default_factory=dict)
    caps: list = field(default_factory=list)
    replayed_twice: int = 0
    nondeterministic: list = field(default_factory=list)

    def add_counter(self, k: str, n: int = 1) -> None:
        self.counters[k] = self.counters.get(k, 0) + n

    def merge(self, o: "Report") -> None:
        self.evaluations += o.evaluations
        self.nontrivial_n += o.nontrivial_n
        self.nontrivial |= o.nontrivial
        self.outcomes |= o.outcomes
        self.states |= o.states
        self.transitions += o.transitions
        self.traces += o.traces
        self.n_violations += o.n_violations
        for k, v in o.viol_sigs.items():
            self.viol_sigs[k] = self.viol_sigs.get(k, 0) + v
        self.violations.extend(o.violations)
        self.violations.sort(key=lambda v: v.get("index", 0))
        # keep the earliest few per signature so every class stays visible
        kept: list = []
        per: dict = {}
        for v in self.violations:
            s = v.get("sig")
            if per.get(s, 0) < 3 and len(kept) < MAX_KEPT_VIOLATIONS:
                kept.append(v)
                per[s] = per.get(s, 0) + 1
        self.violations = kept
        self.samples.extend(o.samples)
        self.samples = self.samples[:MAX_SAMPLES]
        for k, v in o.counters.items():
            self.counters[k] = self.counters.get(k, 0) + v
        self.caps.extend(c for c in o.caps if c not in self.caps)
        self.replayed_twice += o.replayed_twice
        self.nondeterministic.extend(o.nondeterministic)


@dataclass
class Ctx:
    prop: str
    tier: str
    seed: int
    workers: int

    @property
    def quick(self) -> bool:
        return self.tier == "quick"


def call_guarded(fn: Callable[..., Outcome], case: Any, *more: Any) -> Outcome:
    """fn(case, *more), except that an exception which escapes from zorg's OWN code while the
    check drives it with an input of the property's domain is behaviour of the code under test,
    not a flaw of the harness: it comes back as a violating Outcome (which the runner still has
    to reproduce).  Anything raised by the check's own code stays an exception."""
    try:
        return fn(case, *more)
    except H.HarnessError:
        raise
    except Exception as e:  # noqa: BLE001
        import traceback as _tb

        frames = _tb.extract_tb(e.__traceback__)
        owner = next((f for f in reversed(frames)
                      if os.path.realpath(f.filename).startswith((H.VERIF_ROOT, H.REPO_SRC))), None)
        if owner is None or not os.path.realpath(owner.filename).startswith(H.REPO_SRC):
            raise
        out = Outcome()
        out.ok = False
        out.sig = f"exception-in-zorg:{type(e).__name__}@{owner.filename.rsplit('/', 1)[-1]}:{owner.name}"
        out.detail = {"case": jsonable(case), "error": f"{type(e).__name__}: {e}",
                      "traceback_tail": [f"{f.filename}:{f.lineno} {f.name}" for f in frames[-6:]]}
        out.obs = H.digest(out.sig)
        return out


def explore(
    ctx: Ctx,
    cases: Sequence[Any],
    run_case: Callable[[Any], Outcome],
    *,
    sample: Optional[Callable[[Any], Any]] = None,
    init: Optional[Callable[[], None]] = None,
    day=H.DEFAULT_DAY,
    twice_every: int = 0,
    count_traces: bool = True,
) -> Report:
    """Run every case (exhaustively, in parallel) and fold the outcomes.

    `twice_every` > 0 re-runs every n-th passing case and requires an
    identical observation digest (determinism evidence).
    """

    def _init() -> None:
        H.quiet_logging()
        H.quiet_stderr()
        H.freeze(day)
        if init:
            init()

    def work(i: int, case: Any) -> Outcome:
        return call_guarded(run_case, case)

    def fold(acc: Report, i: int, case: Any, out: Outcome) -> None:
        acc.evaluations += out.n_evals
        acc.nontrivial_n += out.n_nontrivial
        if count_traces:
            acc.traces += out.n_evals
        acc.outcomes.add(out.obs)
        if out.nontrivial is not None:
            acc.nontrivial.add(out.nontrivial)
        if out.states:
            acc.states.update(out.states)
        acc.transitions += out.transitions
        if out.counters:
            for k, v in out.counters.items():
                acc.counters[k] = acc.counters.get(k, 0) + v
        if not out.ok:
            acc.n_violations += 1
            acc.viol_sigs[out.sig or "?"] = acc.viol_sigs.get(out.sig or "?", 0) + 1
            per = sum(1 for v in acc.violations if v["sig"] == out.sig)
            if per < 3 and len(acc.violations) < MAX_KEPT_VIOLATIONS:
                acc.violations.append(
                    {"index": i, "case": case, "detail": out.detail, "sig": out.sig}
                )
        else:
            if len(acc.samples) < 2 and sample is not None and i % 7 == 0:
                acc.samples.append(sample(case))
            if twice_every and i % twice_every == 0:
                again = call_guarded(run_case, case)
                acc.replayed_twice += 1
                if again.ok != out.ok:
                    # the same case passed, then failed, in one process: either state the
                    # code under test carries between evaluations or a harness flaw; the
                    # runner decides by replaying this worker's history in a fresh process
                    acc.n_violations += 1
                    acc.viol_sigs[again.sig or "?"] = acc.viol_sigs.get(again.sig or "?", 0) + 1
                    if sum(1 for v in acc.violations if v["sig"] == again.sig) < 3:
                        acc.violations.append({"index": i, "case": case, "detail": again.detail,
                                               "sig": again.sig, "twice": True})
                elif again.obs != out.obs:
                    # same verdict, different incidental observation (e.g. a
                    # file name that embeds a process id): counted, not an error
                    acc.counters["observation_varied_between_two_runs"] = \
                        acc.counters.get("observation_varied_between_two_runs", 0) + 1

    def merge(total: Report, part: Report) -> None:
        total.merge(part)

    rep = H.parallel_fold(
        cases, work, Report, fold, merge, workers=ctx.workers, init=_init
    )
    if sample is not None and not rep.samples and cases:
        rep.samples.append(sample(cases[0]))
    W = H.fold_width(ctx.workers, len(cases))
    for v in rep.violations:
        # what the runner needs to re-run the evaluations that preceded this one in its
        # worker process (never serialised)
        v["_hist"] = (cases, W, _init, run_case, twice_every)
    return rep


def history_of(v: dict) -> Optional[list]:
    """Indices of the evaluations worker (index mod W) made up to and including v."""
    h = v.get("_hist")
    if h is None:
        return None
    _, W, _, _, _ = h
    i = v["index"]
    return list(range(i % W, i + 1, W))


def run_history(v: dict, idxs: list, *, timeout: float = 14400.0):
    """Re-run, in ONE fresh forked process, the given evaluations of v's worker in their
    original order (including the every-n-th double runs); -> (ok, sig, detail) of the
    last evaluation, or None when the child failed."""
    cases, W, init, run_case, twice_every = v["_hist"]

    def go():
        init()
        last = None
        for j in idxs:
            last = call_guarded(run_case, cases[j])
            if last.ok and twice_every and j % twice_every == 0 and (j != idxs[-1] or v.get("twice")):
                last = call_guarded(run_case, cases[j])
        return (last.ok, last.sig, jsonable(last.detail))

    r = H.run_child(go, timeout=timeout, capture=True)
    if r.status != "ok":
        return None
    return r.value


# --------------------------------------------------------------------------
# known findings
# --------------------------------------------------------------------------
def load_findings(prop: str) -> dict[str, str]:
    """sig -> description for findings listed (status known) for `prop`."""
    p = VERIF / "known_findings.json"
    if not p.exists():
        return {}
    data = json.loads(p.read_text())
    return {
        f["sig"]: f["what"]
        for f in data.get("findings", [])
        if f.get("property") == prop
    }


# --------------------------------------------------------------------------
# evidence
# --------------------------------------------------------------------------
def jsonable(o: Any) -> Any:
    if dataclasses.is_dataclass(o) and not isinstance(o, type):
        return jsonable(dataclasses.asdict(o))
    if isinstance(o, dict):
        return {str(k): jsonable(v) for k, v in o.items()}
    if isinstance(o, (list, tuple)):
        return [jsonable(v) for v in o]
    if isinstance(o, (set, frozenset)):
        return sorted((jsonable(v) for v in o), key=repr)
    if isinstance(o, (str, int, float, bool)) or o is None:
        return o
    if isinstance(o, bytes):
        return o.decode("utf-8", "replace")
    return repr(o)


def write_evidence(
    ctx: Ctx,
    *,
    level: str,
    rep: Report,
    rule: str,
    bounds: dict,
    assumptions: list[str],
    exhaustive: bool,
    wall_s: float,
    new_violations: int,
    known_seen: list[str],
    extra: Optional[dict] = None,
) -> Path:
    cov: dict[str, Any] = {
        "evaluations": rep.evaluations,
        "distinct_nontrivial": len(rep.nontrivial) + rep.nontrivial_n,
        "distinct_outcomes": len(rep.outcomes),
        "rule": rule,
        "samples": jsonable(rep.samples) or ["<no sample recorded>"],
        "exhaustive": bool(exhaustive and not rep.caps),
        "bounds": jsonable(bounds),
        "caps_hit": rep.caps,
        "replayed_twice_identical": rep.replayed_twice - len(rep.nondeterministic)
        - rep.counters.get("observation_varied_between_two_runs", 0),
        "counters": jsonable(rep.counters),
        "known_findings_observed": known_seen,
        "violation_signatures": jsonable(rep.viol_sigs),
    }
    if level == "model_checking":
        cov["states"] = len(rep.states)
        cov["transitions"] = rep.transitions
        cov["traces_validated_against_impl"] = rep.traces
    if extra:
        cov.update(jsonable(extra))
    ev = {
        "property_id": ctx.prop,
        "tier": ctx.tier,
        "seed": ctx.seed,
        "level": level,
        "coverage": cov,
        "assumptions": assumptions,
        "wall_s": round(wall_s, 3),
        "violations": new_violations,
    }
    # tools/mut.sh points this elsewhere so that runs against a deliberately
    # broken tree never overwrite the committed evidence
    edir = os.environ.get("VERIF_EVIDENCE_DIR")
    out = (Path(edir) if edir else VERIF / "evidence") / f"{ctx.prop}.json"
    out.parent.mkdir(exist_ok=True)
    tmp = out.with_suffix(".json.tmp")
    tmp.write_text(json.dumps(ev, indent=1, sort_keys=True) + "\n")
    os.replace(tmp, out)
    return out
