"""Drive the real page compiler and turn its result into plain data."""

from __future__ import annotations

from pathlib import Path
from typing import Any, Optional

from . import harness as H

_LAST_PARSER: list[Any] = []
_PATCHED = [False]


def _patch_parser() -> None:
    """Remember the parser instance walk_zorg_page builds, so the parser's own
    syntax-error counter can be read independently of ErrorManager."""
    if _PATCHED[0]:
        return
    import zorg.service.compiler._api as api

    base = api.ZorgFileParser

    class _RecordingParser(base):  # type: ignore[misc,valid-type]
        def __init__(self, *a: Any, **k: Any) -> None:
            super().__init__(*a, **k)
            _LAST_PARSER[:] = [self]

    api.ZorgFileParser = _RecordingParser
    _PATCHED[0] = True


def note_to_dict(n: Any, section: Optional[list[str]] = None, block: Optional[int] = None) -> dict:
    tp = n.todo_payload
    d = {
        "kind": tp.status.value if tp else "-",
        "priority": tp.priority if tp else None,
        "body": n.body,
        "line": n.line_no,
        "zid": n.zid,
        "create": n.create_date.isoformat() if n.create_date else None,
        "modify": n.modify_date.isoformat() if n.modify_date else None,
        "areas": sorted(n.areas),
        "contexts": sorted(n.contexts),
        "people": sorted(n.people),
        "projects": sorted(n.projects),
        "links": sorted(n.links),
        "props": dict(sorted(n.properties.items())),
    }
    if section is not None:
        d["section"] = section
        d["block"] = block
    return d


def page_notes(page: Any) -> list[dict]:
    """Notes in document order with section path (titles) and block index."""
    out: list[dict] = []

    def blocks(sec: Any, path: list[str]) -> None:
        for bi, b in enumerate(sec.blocks):
            for n in b.notes:
                out.append(note_to_dict(n, path, bi))

    h1s = list(page.h1s)
    if page.h0 is not None:
        h1s = [page.h0] + h1s
    for h1 in h1s:
        p1 = [h1.title]
        blocks(h1, p1)
        for h2 in h1.h2s:
            p2 = p1 + [h2.title]
            blocks(h2, p2)
            for h3 in h2.h3s:
                p3 = p2 + [h3.title]
                blocks(h3, p3)
                for h4 in h3.h4s:
                    blocks(h4, p3 + [h4.title])
    return out


def compile_path(zdir: Path, path: Path, verbose: bool = False, keep_page: bool = False) -> dict:
    """walk_zorg_page on a file; never raises."""
    from zorg.service.compiler import walk_zorg_page

    _patch_parser()
    _LAST_PARSER[:] = []
    res: dict[str, Any] = {"exc": None, "notes": [], "has_errors": None, "nsyntax": None}
    try:
        page = walk_zorg_page(zdir, path, verbose=verbose)
        res["has_errors"] = bool(page.has_errors)
        res["notes"] = page_notes(page)
        # Page.notes (what `db create` and every consumer of a page iterate over)
        res["flat"] = [[n.zid, n.line_no] for n in page.notes]
        if keep_page:
            res["page"] = page
    except Exception as e:  # noqa: BLE001
        import traceback

        tb = traceback.extract_tb(e.__traceback__)
        frame = next(
            (f"{Path(f.filename).name}:{f.name}" for f in reversed(tb) if "/zorg/" in f.filename),
            "?",
        )
        res["exc"] = f"{type(e).__name__}: {e}"
        res["exc_type"] = type(e).__name__
        res["exc_frame"] = frame
    if _LAST_PARSER:
        try:
            res["nsyntax"] = int(_LAST_PARSER[0].getNumberOfSyntaxErrors())
        except Exception:  # noqa: BLE001
            res["nsyntax"] = None
    return res


_TEXT_DIR: dict[int, Path] = {}


def compile_text(text: str, name: str = "t.zo", verbose: bool = False, keep_page: bool = False) -> dict:
    """Compile page text (written to a per-process scratch file)."""
    import os

    d = _TEXT_DIR.get(os.getpid())
    if d is None or not d.exists():
        d = _TEXT_DIR[os.getpid()] = H.new_dir("txt")
    p = d / name
    p.parent.mkdir(parents=True, exist_ok=True)
    p.write_bytes(text.encode("utf-8", "surrogateescape") if isinstance(text, str) else text)
    return compile_path(d, p, verbose=verbose, keep_page=keep_page)


def lex(text: str, which: str) -> list[tuple[str, str]]:
    """Token (symbolic name, text) list from one of the generated lexers."""
    import antlr4

    if which == "file":
        from zorg.grammar.zorg_file.ZorgFileLexer import ZorgFileLexer as L
    else:
        from zorg.grammar.zorg_query.ZorgQueryLexer import ZorgQueryLexer as L
    lx = L(antlr4.InputStream(text))
    lx.removeErrorListeners()
    errs = []

    class _E(antlr4.error.ErrorListener.ErrorListener):  # type: ignore[name-defined]
        def syntaxError(self, r, o, line, col, msg, e):  # noqa: N802
            errs.append(msg)

    lx.addErrorListener(_E())
    toks = []
    for t in lx.getAllTokens():
        # generated symbolicNames is misaligned (implicit T__n tokens are
        # dropped from it); ruleNames is in token-type order.
        name = L.ruleNames[t.type - 1] if 1 <= t.type <= len(L.ruleNames) else str(t.type)
        if name.startswith("T__"):
            name = L.literalNames[t.type] if t.type < len(L.literalNames) else name
        toks.append((name, t.text))
    if errs:
        toks.append(("<LEXER-ERROR>", "; ".join(errs)))
    return toks
