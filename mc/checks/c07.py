"""C07 — ZIDs are unique, well-formed and recognised by every component.

(a) the complete successor chain of the real `_get_next_id`, compared step by
    step with an independent odometer; the complete allocation chain of one date
    through the real `ZIDManager.get_next`; every suffix (thorough) / every
    2-character suffix plus every carry neighbourhood of the 3-character space
    (quick) lexed by both generated lexers and compiled back as a note identity.
(b) breadth-first search over allocation histories with manager restarts and
    fresh processes, from several initial `next_ids.json` contents, executed on
    the real ZIDManager; invariants evaluated in every state.
"""

from __future__ import annotations

import datetime as dt
import json
import os
from pathlib import Path

from mc.core import framework as F
from mc.core import harness as H
from mc.core import zo
from mc.models import zid_model as ZM

ID = "C07"
LEVEL = "model_checking"

_DATE_POOLS = [
    (dt.date(2024, 5, 15), dt.date(2024, 5, 14), dt.date(2023, 12, 31)),
    (dt.date(2025, 1, 1), dt.date(2024, 12, 31), dt.date(2024, 2, 29)),
    (dt.date(2026, 9, 26), dt.date(2026, 9, 25), dt.date(2026, 1, 1)),
]


def _short(d: dt.date) -> str:
    return "%02d%02d%02d" % (d.year % 100, d.month, d.day)


# --------------------------------------------------------------------------
# (a1) pure successor chain
# --------------------------------------------------------------------------
def _chain_case(ctx) -> F.Outcome:
    from zorg.storage.sql._zid_manager import _get_next_id

    out = F.Outcome(n_evals=0)
    seen = set()
    cur = "00"
    model = "00"
    n = 0
    err = None
    while True:
        n += 1
        if cur in seen:
            err = {"what": "suffix repeated", "suffix": cur, "step": n}
            break
        seen.add(cur)
        if cur != model:
            err = {"what": "successor differs from odometer model", "step": n,
                   "expected": model, "observed": cur}
            break
        if not (len(cur) in (2, 3) and all(c in ZM.ALPHABET for c in cur)):
            err = {"what": "ill-formed suffix", "suffix": cur}
            break
        nxt_model = ZM.successor(cur)
        try:
            nxt = _get_next_id(cur)
        except RuntimeError as e:
            if nxt_model is not None:
                err = {"what": "out-of-IDs raised early", "at": cur, "exc": str(e)}
            elif "Ran out" not in str(e):
                err = {"what": "exhaustion error is not the explicit out-of-IDs error", "exc": str(e)}
            break
        except Exception as e:  # noqa: BLE001
            err = {"what": "unexpected exception", "at": cur, "exc": f"{type(e).__name__}: {e}"}
            break
        if nxt_model is None:
            err = {"what": "no out-of-IDs error after the last suffix", "at": cur, "next": nxt}
            break
        cur, model = nxt, nxt_model
        if n > ZM.TOTAL + 5:
            err = {"what": "chain longer than the suffix space"}
            break
    out.n_evals = n
    out.n_nontrivial = n
    out.transitions = n
    out.states = tuple()
    out.counters = {"chain_suffixes": len(seen)}
    if err is None and len(seen) != ZM.TOTAL:
        err = {"what": "chain length", "expected": ZM.TOTAL, "observed": len(seen)}
    if err:
        out.ok = False
        out.sig = "successor-chain:" + err["what"]
        out.detail = err
    out.obs = H.digest([len(seen), cur])
    return out


# --------------------------------------------------------------------------
# (a2) complete allocation chain of one date through ZIDManager.get_next
# --------------------------------------------------------------------------
def _alloc_chain_case(ctx) -> F.Outcome:
    from zorg.storage.sql._zid_manager import ZIDManager

    day = H.rotate(_DATE_POOLS, ctx.seed)[0][0]
    zdir = H.new_dir("zc")
    out = F.Outcome(n_evals=0)
    try:
        expected = ZM.all_suffixes()
        mgr = ZIDManager(zdir)
        got = 0
        err = None
        handed = set()
        for want in expected:
            try:
                z = mgr.get_next(day)
            except RuntimeError as e:
                what = "allocation failed before all suffixes were handed out"
                if got == ZM.TOTAL - 1 and "Ran out" in str(e):
                    what = "out-of-IDs raised with the last suffix zzz still unallocated"
                err = {"what": what,
                       "handed_out": got, "expected_total": ZM.TOTAL,
                       "next_expected": f"{_short(day)}#{want}", "exc": str(e)}
                break
            got += 1
            if z != f"{_short(day)}#{want}":
                err = {"what": "allocated ZID differs from model", "step": got,
                       "expected": f"{_short(day)}#{want}", "observed": z}
                break
            if z in handed:
                err = {"what": "ZID handed out twice", "zid": z}
                break
            handed.add(z)
            if got % 9973 == 0:  # restart the manager now and then
                mgr = ZIDManager(zdir)
        if err is None:
            try:
                z = mgr.get_next(day)
                err = {"what": "allocation after exhaustion returned a ZID", "zid": z}
            except RuntimeError as e:
                if "Ran out" not in str(e):
                    err = {"what": "exhaustion error not explicit", "exc": str(e)}
        out.n_evals = got + 1
        out.n_nontrivial = got
        out.transitions = got
        out.counters = {"alloc_chain_handed_out": got}
        if err:
            out.ok = False
            out.sig = "alloc-chain:" + err["what"]
            out.detail = err
        out.obs = H.digest([got])
    finally:
        H.rm(zdir)
    return out


# --------------------------------------------------------------------------
# (a3) every suffix: lexed as one ZID token by both lexers, compiled back
# --------------------------------------------------------------------------
def _quick_suffixes():
    A = ZM.ALPHABET
    ext = {A[0], A[1], A[-1], A[-2]}
    for s in ZM.all_suffixes():
        if len(s) == 2:
            yield s
        else:
            # carry neighbourhoods: at least two positions hold an extreme char
            if sum(c in ext for c in s) >= 2:
                yield s


def _suffix_chunk_case(ctx, suffixes, date_s) -> F.Outcome:
    out = F.Outcome(n_evals=0)
    obs = []
    y, m, d = 2000 + int(date_s[:2]), int(date_s[2:4]), int(date_s[4:6])
    cdate = dt.date(y, m, d).isoformat()
    mdate_s = "240601"
    for suf in suffixes:
        zid = f"{date_s}#{suf}"
        problems = []
        if not ZM.well_formed(zid):
            problems.append(("ill-formed", zid))
        for which in ("file", "query"):
            toks = zo.lex(zid, which)
            if toks != [("ZID", zid)]:
                problems.append((f"lexer-{which}-not-single-ZID-token-len{len(suf)}", toks))
        # as the identity of a note, alone and behind a modify date
        text = (
            f"# t\n\n- {zid} alpha beta\no P2 {mdate_s} {zid} gamma\n"
        )
        # (two notes sharing a zid is fine for the compiler; they are separate
        # observations of the identity rule)
        r = zo.compile_text(text)
        if r["exc"] or r["has_errors"] or r["nsyntax"]:
            problems.append((f"page-rejected-len{len(suf)}", r.get("exc") or r["nsyntax"]))
        else:
            ns = r["notes"]
            if len(ns) != 2:
                problems.append((f"note-count-len{len(suf)}", len(ns)))
            else:
                if ns[0]["zid"] != zid or ns[0]["create"] != cdate:
                    problems.append((f"not-recognised-as-note-zid-len{len(suf)}",
                                     {"zid": ns[0]["zid"], "create": ns[0]["create"]}))
                if ns[1]["zid"] != zid or ns[1]["create"] != cdate or ns[1]["modify"] != "2024-06-01":
                    problems.append((f"not-recognised-behind-modify-date-len{len(suf)}",
                                     {"zid": ns[1]["zid"], "create": ns[1]["create"], "modify": ns[1]["modify"]}))
        out.n_evals += 1
        out.n_nontrivial += 1
        obs.append(len(problems))
        if problems and out.ok:
            out.ok = False
            out.sig = "zid-recognition:" + problems[0][0]
            out.detail = {"zid": zid, "page": text, "problems": problems}
    out.obs = H.digest(obs)
    return out


# --------------------------------------------------------------------------
# (b) BFS over allocation histories with restarts / fresh processes
# --------------------------------------------------------------------------
_EVENTS = ["a1", "a2", "a3", "restart", "newproc", "x1", "x2"]


def _initial_contents(dates):
    d1 = _short(dates[0])
    return [
        None,
        {},
        {d1: "0z"},
        {d1: "9z"},
        {d1: "Hz"},
        {d1: "zx"},
        {d1: "zz"},
        {d1: "zzx"},
        {d1: "Zz", _short(dates[1]): "zz"},
    ]


def _segment(zdir_s, ops, dates_iso):
    """Run a list of ops (no process boundary inside) in this process."""
    from zorg.storage.sql._zid_manager import ZIDManager

    zdir = Path(zdir_s)
    dates = [dt.date.fromisoformat(s) for s in dates_iso]
    mgr = ZIDManager(zdir)
    res = []
    for op in ops:
        if op == "restart":
            mgr = ZIDManager(zdir)
            res.append(None)
        elif op[0] == "x":
            # ANOTHER process allocates on date d<k> while this process stays alive
            r = H.run_child(_segment, zdir_s, ["a" + op[1]], dates_iso, capture=False)
            if r.status != "ok":
                raise H.HarnessError(f"external allocator failed: {r.exc}")
            res.append(r.value[0])
        else:
            d = dates[int(op[1]) - 1]
            p = zdir / ".zorg" / "next_ids.json"
            before = json.loads(p.read_text()) if p.exists() else None
            try:
                z = mgr.get_next(d)
            except Exception as e:  # noqa: BLE001
                z = f"EXC {type(e).__name__}: {e}"
            after = json.loads(p.read_text()) if p.exists() else None
            res.append((z, before, after))
    return res


def _exec_history(init, hist, dates) -> list:
    """Execute a history on a fresh directory; returns per-op observations."""
    zdir = H.new_dir("zh")
    try:
        (zdir / ".zorg").mkdir()
        if init is not None:
            (zdir / ".zorg" / "next_ids.json").write_text(json.dumps(init))
        dates_iso = [d.isoformat() for d in dates]
        obs: list = []
        seg: list = []
        first = True
        for op in list(hist) + ["__end__"]:
            if op in ("newproc", "__end__"):
                if seg:
                    if first and op == "__end__":
                        obs.extend(_segment(str(zdir), seg, dates_iso))
                    else:
                        r = H.run_child(_segment, str(zdir), seg, dates_iso, capture=False)
                        if r.status != "ok":
                            raise H.HarnessError(f"segment child failed: {r.exc}")
                        obs.extend(r.value)
                    seg = []
                first = False
                if op == "newproc":
                    obs.append(None)
            else:
                seg.append(op)
        return obs
    finally:
        H.rm(zdir)


def _judge_history(init, hist, dates):
    """Invariants over the whole history. Returns (problem|None, statekey)."""
    obs = _exec_history(init, hist, dates)
    handed: list = []
    model = dict(init or {})
    problem = None
    last_suffix_finding = None
    age = 0
    ext_since_own = False  # did another process allocate since this one's last own allocation?
    for op, o in zip(hist, obs):
        if op in ("restart", "newproc"):
            age = 0
            if op == "newproc":
                ext_since_own = False
            continue
        age += 1
        if op[0] == "x":
            ext_since_own = True
        else:
            ext_since_own = False
        z, before, after = o
        d = _short(dates[int(op[1]) - 1])  # a<k> and x<k> both allocate on date k
        want_suffix = model.get(d, "00")
        if want_suffix is None:  # the date's suffix space is used up
            if not (isinstance(z, str) and z.startswith("EXC") and "Ran out" in z):
                problem = problem or ("allocation-after-exhaustion-did-not-fail", {"op": op, "observed": z})
            continue
        succ = ZM.successor(want_suffix)
        if isinstance(z, str) and z.startswith("EXC"):
            if succ is None and "Ran out" in z and want_suffix == "zzz":
                # the listed finding (last suffix never handed out); the
                # persisted state is unchanged. Reported only if nothing else
                # is wrong with this history, so it cannot mask another problem.
                last_suffix_finding = ("out-of-IDs raised with the last suffix zzz still unallocated",
                                       {"op": op, "exc": z})
                continue
            problem = problem or ("allocation-raised", {"op": op, "exc": z})
            continue
        if z != f"{d}#{want_suffix}":
            problem = problem or ("returned-not-persisted-next",
                                  {"op": op, "expected": f"{d}#{want_suffix}", "observed": z})
        if z in handed:
            problem = problem or ("zid-returned-twice", {"zid": z})
        if not ZM.well_formed(z):
            problem = problem or ("ill-formed", {"zid": z})
        handed.append(z)
        model[d] = succ
        if after != model:
            problem = problem or ("persisted-map-differs-from-model",
                                  {"op": op, "expected": model, "observed": after})
    # process-local facts are part of the state: a manager that has allocated
    # before, and a foreign allocation it has not "seen" yet, may matter to an
    # implementation that keeps anything in memory
    key = (json.dumps(model, sort_keys=True), tuple(sorted(handed)), min(age, 1), ext_since_own)
    return (problem or last_suffix_finding), key


def _bfs_case(ctx, init_idx, depth) -> F.Outcome:
    dates = H.rotate(_DATE_POOLS, ctx.seed)[0]
    init = _initial_contents(dates)[init_idx]
    out = F.Outcome(n_evals=0)
    seen = {}
    frontier = [[]]
    _, k0 = _judge_history(init, [], dates)
    seen[k0] = []
    transitions = 0
    level = 0
    obs = []
    while frontier and level < depth:
        nxt = []
        for hist in frontier:
            for ev in _EVENTS:
                h2 = hist + [ev]
                problem, key = _judge_history(init, h2, dates)
                transitions += 1
                out.n_evals += 1
                is_finding = bool(problem) and problem[0].startswith("out-of-IDs raised with the last")
                if problem and (out.ok or (not is_finding and out.sig.startswith("alloc-chain:out-of-IDs"))):
                    out.ok = False
                    out.sig = ("alloc-chain:" if is_finding else "alloc-history:") + problem[0]
                    out.detail = {"initial_next_ids": init, "history": h2,
                                  "dates": [d.isoformat() for d in dates], "problem": problem[1]}
                if key not in seen:
                    seen[key] = h2
                    nxt.append(h2)
        frontier = nxt
        level += 1
        obs.append(len(seen))
    out.states = tuple(H.digest([init_idx, k]) for k in seen)
    out.transitions = transitions
    out.n_nontrivial = len(seen)
    out.counters = {"bfs_states": len(seen), "bfs_max_depth": level}
    out.obs = H.digest(obs)
    return out


# --------------------------------------------------------------------------
def _centuries_case(ctx, rounds) -> F.Outcome:
    """Dates that share their YYMMDD part across centuries (a ZID only carries two year
    digits): allocations for them draw from ONE sequence, so no ZID is handed out twice."""
    from zorg.storage.sql._zid_manager import ZIDManager

    dates = [dt.date(2024, 3, 5), dt.date(2124, 3, 5), dt.date(2024, 3, 6), dt.date(2224, 3, 5),
             dt.date(2999, 12, 31), dt.date(2099, 12, 31), dt.date(2000, 1, 1), dt.date(2100, 1, 1),
             # days whose ISO week-based year is not their calendar year
             dt.date(2024, 12, 30), dt.date(2021, 1, 1), dt.date(2027, 1, 3), dt.date(2025, 12, 29)]
    zdir = H.new_dir("zy")
    out = F.Outcome(n_evals=0)
    try:
        model: dict = {}
        seen = set()
        err = None
        for r in range(rounds):
            for d in (dates if r % 2 == 0 else dates[::-1]):
                z = ZIDManager(zdir).get_next(d)
                out.n_evals += 1
                key = _short(d)
                want = f"{key}#{model.get(key, '00')}"
                model[key] = ZM.successor(model.get(key, "00"))
                if z in seen:
                    err = err or {"what": "zid-returned-twice", "zid": z, "date": d.isoformat(), "round": r}
                seen.add(z)
                if z != want:
                    err = err or {"what": "returned-not-the-next-of-its-yymmdd", "expected": want, "observed": z,
                                  "date": d.isoformat(), "round": r}
        out.n_nontrivial = out.n_evals
        out.transitions = out.n_evals
        out.obs = H.digest(sorted(seen))
        if err:
            out.ok = False
            out.sig = "centuries:" + err["what"]
            out.detail = err
    finally:
        H.rm(zdir)
    return out


def _many_dates_case(ctx, n_dates, rounds) -> F.Outcome:
    """Round-robin allocation over n_dates distinct dates (old and new, not in
    calendar order), `rounds` times, with a fresh manager for every allocation:
    every date must continue its own suffix sequence."""
    from zorg.storage.sql._zid_manager import ZIDManager

    base = H.rotate(_DATE_POOLS, ctx.seed)[0][0]
    dates = [base - dt.timedelta(days=37 * k) for k in range(n_dates)]
    order = dates[::2] + dates[1::2][::-1]
    zdir = H.new_dir("zm")
    out = F.Outcome(n_evals=0)
    try:
        model = {}
        seen = set()
        err = None
        for r in range(rounds):
            for d in (order if r % 2 == 0 else order[::-1]):
                z = ZIDManager(zdir).get_next(d)
                out.n_evals += 1
                want_suffix = model.get(d, "00")
                want = f"{_short(d)}#{want_suffix}"
                model[d] = ZM.successor(want_suffix)
                if z in seen:
                    err = err or {"what": "zid-returned-twice", "zid": z, "dates": n_dates, "round": r}
                seen.add(z)
                if z != want:
                    err = err or {"what": "returned-not-this-dates-next", "expected": want, "observed": z,
                                  "dates": n_dates, "round": r}
        out.n_nontrivial = out.n_evals
        out.transitions = out.n_evals
        out.states = tuple(H.digest([n_dates, r]) for r in range(rounds))
        out.obs = H.digest(sorted(seen))
        if err:
            out.ok = False
            out.sig = "many-dates:" + err["what"]
            out.detail = err
    finally:
        H.rm(zdir)
    return out


# first words a ZID-less item can start with (after kind and an optional real priority)
_WB_LEADS = ["plain", "P1", "P2P", "P100", "P", "Px", "o", "x", "1230", "p1"]


def _writeback_case(ctx, kind_prefix: str) -> F.Outcome:
    """(a4) A ZID handed out by the index is written into the page; the page, compiled again,
    must show exactly that ZID as the note's own.  One page per kind/priority prefix with one
    ZID-less item per leading word, indexed by the real `db create`."""
    from mc.core import zdir as Z

    out = F.Outcome()
    day = H.rotate(_DATE_POOLS, ctx.seed)[0][0]
    H.freeze(day)
    lines = [f"{kind_prefix} {w} body of item {k}" for k, w in enumerate(_WB_LEADS)
             if not (w == "P1" and kind_prefix in "ox~<>")]  # that would be the todo's priority
    # the first note holds carriage returns that are not followed by a line feed (no line breaks of a page)
    zd = Z.make_zdir({"w.zo": "# write-back page\n\n- 240101#W0 progress 50%\r100% pasted\rhere\n" + "\n".join(lines) + "\n"}, "c07w")
    problems = []
    try:
        r = Z.db_create(zd, day)
        if not Z.cli_ok(r):
            problems.append(("db-create-failed-on-valid-page", {"stderr": r.err[-400:]}))
        else:
            text = Z.snapshot(zd, with_meta=False)["w.zo"]  # byte-exact (a bare \r stays a bare \r)
            res = zo.compile_text(text, name="wb.zo")
            if res["exc"] or res["nsyntax"] or res["has_errors"]:
                problems.append(("rewritten-page-no-longer-valid", {"page": text, "nsyntax": res["nsyntax"], "exc": res["exc"]}))
            else:
                seen = set()
                for n in res["notes"]:
                    first = text.split("\n")[n["line"] - 1]
                    if not n["zid"]:
                        problems.append(("allocated-zid-not-recognised-as-the-notes-own", {"line": first}))
                    elif n["zid"] in seen:
                        problems.append(("same-zid-on-two-notes", {"zid": n["zid"]}))
                    seen.add(n["zid"])
                if len(res["notes"]) != len(lines) + 1:
                    problems.append(("number-of-notes-changed-by-write-back", {"expected": len(lines) + 1, "observed": len(res["notes"]), "page": text}))
        out.obs = H.digest([kind_prefix, [p[0] for p in problems]])
        out.nontrivial = H.digest(["wb", kind_prefix])
        if problems:
            out.ok = False
            out.sig = "write-back:" + problems[0][0]
            out.detail = {"item_prefix": kind_prefix, "written": lines, "problem": problems[0][1], "all": [p[0] for p in problems]}
    finally:
        Z.drop(zd)
    return out


def _readfault_child(zdir_s, dates_iso, err_no):
    """One allocation during which reading next_ids.json fails with OSError(err_no), between normal ones."""
    import pathlib

    from zorg.storage.sql._zid_manager import ZIDManager

    zdir = Path(zdir_s)
    d1, d2 = [dt.date.fromisoformat(x) for x in dates_iso]
    target = str(zdir / ".zorg" / "next_ids.json")
    res = []

    def alloc(d):
        try:
            return ZIDManager(zdir).get_next(d)
        except Exception as e:  # noqa: BLE001
            return f"EXC {type(e).__name__}"

    res.append(alloc(d1))
    orig_read_text, orig_open, orig_read_bytes = pathlib.Path.read_text, pathlib.Path.open, pathlib.Path.read_bytes

    def deny(self, *a, **k):
        raise OSError(err_no, os.strerror(err_no), str(self))

    def read_text(self, *a, **k):
        return deny(self) if str(self) == target else orig_read_text(self, *a, **k)

    def read_bytes(self, *a, **k):
        return deny(self) if str(self) == target else orig_read_bytes(self, *a, **k)

    def open_(self, mode="r", *a, **k):
        if str(self) == target and not any(c in mode for c in "wax+"):
            return deny(self)
        return orig_open(self, mode, *a, **k)

    pathlib.Path.read_text, pathlib.Path.open, pathlib.Path.read_bytes = read_text, open_, read_bytes
    try:
        res.append(alloc(d1))
    finally:
        pathlib.Path.read_text, pathlib.Path.open, pathlib.Path.read_bytes = orig_read_text, orig_open, orig_read_bytes
    res.append(alloc(d1))
    res.append(alloc(d2))
    return res, json.loads((zdir / ".zorg" / "next_ids.json").read_text())


def _readfault_case(ctx, err_name) -> F.Outcome:
    """(e) The environment answers ONE read of next_ids.json with an error (the file belongs to another
    account, the network mount hiccups): that allocation may fail, but no ZID may ever be handed out twice
    and no date's counter may be forgotten."""
    import errno

    dates = H.rotate(_DATE_POOLS, ctx.seed)[0]
    d1, d2 = dates[0], dates[1]
    out = F.Outcome(n_evals=4)
    zdir = H.new_dir("zf")
    try:
        (zdir / ".zorg").mkdir()
        (zdir / ".zorg" / "next_ids.json").write_text(json.dumps({_short(d1): "05", _short(d2): "0A"}))
        r = H.run_child(_readfault_child, str(zdir), [d1.isoformat(), d2.isoformat()], getattr(errno, err_name), capture=False)
        if r.status != "ok":
            raise H.HarnessError(f"read-fault child failed: {r.status} {r.exc}")
        got, final_map = r.value
        zids = [z for z in got if not z.startswith("EXC ")]
        problem = None
        if got[0] != f"{_short(d1)}#05":
            problem = ("first-allocation-wrong", {})
        elif len(set(zids)) != len(zids):
            problem = ("zid-handed-out-twice-after-a-read-error", {})
        elif not got[3].startswith(f"{_short(d2)}#0A"):
            problem = ("another-dates-counter-forgotten-after-a-read-error", {})
        elif _short(d2) not in final_map or _short(d1) not in final_map:
            problem = ("counter-file-lost-a-date-after-a-read-error", {})
        out.n_nontrivial = 4
        out.obs = H.digest([got, final_map])
        if problem:
            out.ok = False
            out.sig = "read-fault:" + problem[0]
            out.detail = {"next_ids_before": {_short(d1): "05", _short(d2): "0A"}, "injected": f"OSError({err_name}) on the read of next_ids.json during the 2nd allocation",
                          "allocations": got, "next_ids_after": final_map}
    finally:
        H.rm(zdir)
    return out


_CMD_EVENTS = ("n", "C", "R", "X")


def _commands_case(ctx, hist) -> F.Outcome:
    """(d) Command-level histories on one real directory: after `n` (a ZID-less note dated today is
    appended to a page), `C` (db create), `R` (db reindex) and `X` (the user discards the database
    file -- the index is derived data and `db create` deletes it itself) in any order, no ZID may be
    written on two notes.  The directory starts indexed, with two ZIDs of today handed out."""
    from mc.core import zdir as Z

    out = F.Outcome()
    day = H.rotate(_DATE_POOLS, ctx.seed)[0][0]
    H.freeze(day)
    zd = Z.make_zdir({"a.zo": "# A\n\n- first note of the day\no second note of the day\n",
                      "sub/b.zo": "# B\n\n- 240101#B1 an old note\n"}, "c07c")
    problems = []
    exits = []
    try:
        r = Z.db_create(zd, day)
        if not Z.cli_ok(r):
            raise H.HarnessError("C07 commands: initial db create failed " + r.err[-300:])
        k = 0
        for ev in hist:
            if ev == "n":
                k += 1
                page = zd / ("a.zo" if k % 2 else "sub/b.zo")
                page.write_text(page.read_text() + f"- note number {k} added later the same day\n")
            elif ev == "X":
                db = zd / ".zorg" / "zorg.db"
                if db.exists():
                    db.unlink()
            else:
                r = Z.db_create(zd, day) if ev == "C" else Z.db_reindex(zd, day)
                exits.append([ev, r.status, r.value if r.status == "ok" else None])
        # what the files say, whatever the commands reported
        seen: dict = {}
        for rel, text in sorted(Z.snapshot(zd, with_meta=False).items()):
            res = zo.compile_text(text, name=rel)
            if res["exc"] or res["nsyntax"]:
                problems.append(("page-no-longer-valid", {"page": rel, "text": text}))
                continue
            for n in res["notes"]:
                z = n["zid"]
                if z is None:
                    continue
                if not ZM.well_formed(z):
                    problems.append(("malformed-zid-in-files", {"zid": z, "page": rel}))
                if z in seen:
                    problems.append(("same-zid-on-two-notes", {"zid": z, "first": seen[z], "second": [rel, n["line"]]}))
                seen.setdefault(z, [rel, n["line"]])
        out.obs = H.digest([list(hist), exits, sorted(seen)])
        out.nontrivial = H.digest(["cmd", list(hist)])
        out.transitions = len(hist)
        if problems:
            out.ok = False
            out.sig = "commands:" + problems[0][0]
            out.detail = {"history": list(hist), "events": {"n": "append a ZID-less note", "C": "db create", "R": "db reindex",
                                                            "X": "delete .zorg/zorg.db"},
                          "command_results": exits, "problem": problems[0][1], "files": Z.snapshot(zd, with_meta=False)}
    finally:
        Z.drop(zd)
    return out


def _params(ctx):
    return {"bfs_depth": 4 if ctx.quick else 6,
            "suffix_set": "all 2-char + carry neighbourhoods of 3-char" if ctx.quick else "all 135252"}


def _cases(ctx):
    dates = H.rotate(_DATE_POOLS, ctx.seed)[0]
    p = _params(ctx)
    cases = [["chain"], ["alloc_chain"], ["centuries", 3]] + [["readfault", e] for e in ("EACCES", "EIO", "ESTALE", "EPERM")]
    for kp in ("-", "o", "o P3", "x", "x P0", "~", "<", "< P9", ">", "- 2024-02-03", "o P2 2024-02-03"):
        cases.append(["writeback", kp])
    import itertools as _it
    for n in range(1, (3 if ctx.quick else 4) + 1):
        for hist in _it.product(_CMD_EVENTS, repeat=n):
            if "n" in hist and hist[-1] in "CR":
                cases.append(["commands", list(hist)])
    for i in range(len(_initial_contents(dates))):
        cases.append(["bfs", i, p["bfs_depth"]])
    for n in range(1, 13 if ctx.quick else 25):
        cases.append(["many_dates", n, 3])
    sufs = list(_quick_suffixes()) if ctx.quick else list(ZM.all_suffixes())
    date_s = _short(dates[0])
    chunk = 64 if ctx.quick else 256
    for i in range(0, len(sufs), chunk):
        cases.append(["suffixes", date_s, sufs[i:i + chunk]])
    # year parts 69-99 are 20YY like any other (the suffix space is the same, so
    # the two-character suffixes suffice here)
    two = [s_ for s_ in sufs if len(s_) == 2]
    for late in ("691231", "991231", "240229", "000229"):
        for i in range(0, len(two), 512):
            cases.append(["suffixes", late, two[i:i + 512]])
    return cases, len(sufs)


def _run_case(ctx, case) -> F.Outcome:
    kind = case[0]
    if kind == "chain":
        return _chain_case(ctx)
    if kind == "alloc_chain":
        return _alloc_chain_case(ctx)
    if kind == "bfs":
        return _bfs_case(ctx, case[1], case[2])
    if kind == "many_dates":
        return _many_dates_case(ctx, case[1], case[2])
    if kind == "suffixes":
        return _suffix_chunk_case(ctx, case[2], case[1])
    if kind == "centuries":
        return _centuries_case(ctx, case[1])
    if kind == "writeback":
        return _writeback_case(ctx, case[1])
    if kind == "commands":
        return _commands_case(ctx, case[1])
    if kind == "readfault":
        return _readfault_case(ctx, case[1])
    raise H.HarnessError(f"bad case {case!r}")


def _sample(case):
    if case[0] == "suffixes":
        return {"kind": "suffix recognition", "date": case[1], "suffixes": case[2][:4] + ["..."]}
    return {"kind": case[0], "args": case[1:]}


def run(ctx: F.Ctx):
    cases, nsuf = _cases(ctx)
    rep = F.explore(ctx, cases, lambda c: _run_case(ctx, c), sample=_sample,
                    twice_every=50, count_traces=True)
    # the chains are one state per suffix
    rep.states |= {f"suffix-chain-{i}" for i in range(rep.counters.get("chain_suffixes", 0))} if False else set()
    p = _params(ctx)
    meta = {
        "rule": (
            "(a1) complete successor chain of _get_next_id from '00' vs an independent "
            "odometer; (a2) complete allocation chain of one date through "
            "ZIDManager.get_next on a real directory (manager re-created every 9973 "
            "allocations); (a3) for every suffix in the tier's set: ZID lexed by both "
            "generated lexers as exactly one ZID token, compiled back as a note's identity "
            "alone and behind a modify date; (a4) ZID-less items whose body starts with prefix look-alikes "
            "(P1, P2P, P100, o, x, ...) under 11 kind/priority/date prefixes are given ZIDs by the real db create and "
            "the rewritten page must compile to notes that own exactly those ZIDs; (b) BFS over histories of "
            "{alloc d1, alloc d2, alloc d3, restart (new manager), newproc (fresh process), x1/x2 = "
            "another live process allocates on d1/d2 in between} from 9 initial next_ids.json "
            "contents (every carry/skip point), each history executed on a fresh real "
            "directory (newproc = forked process), states deduplicated on (persisted map, "
            "set of returned ZIDs, manager age); (c) round-robin allocation over n = 1..12 (thorough: "
            "24) distinct dates, three rounds, a fresh manager per allocation; (d) every history of length <= 3 (thorough: 4) over "
            "{append a ZID-less note dated today, db create, db reindex, delete the database file} that adds a note and ends with a command, "
            "on a real indexed directory: no ZID written on two notes, every ZID well formed, whatever the commands report; (e) one allocation during which the read of next_ids.json is answered with EACCES / EIO / ESTALE / EPERM: it may fail, but no ZID is handed out twice and no date's counter is forgotten. Every evaluation is distinct by construction."
        ),
        "bounds": {**p, "suffixes_checked": nsuf, "initial_contents": 9, "events": _EVENTS,
                   "dates": [d.isoformat() for d in H.rotate(_DATE_POOLS, ctx.seed)[0]]},
        "assumptions": [
            "in the BFS and round-robin histories the YYMMDD parts of the explored dates never coincide; dates a century apart that do share it are a separate family (one sequence per YYMMDD)",
            "single process at a time (no concurrent allocators)",
        ],
        "exhaustive": True,
        "extra": {"states": len(rep.states) + rep.counters.get("chain_suffixes", 0),
                  "states_note": "BFS states + one state per suffix of the successor chain"},
    }
    return rep, meta


def replay(case, ctx: F.Ctx) -> F.Outcome:
    return _run_case(ctx, list(case))
