"""C08 — Indexing never crashes on any file and never silently drops a broken one.

Deviation-bounded exhaustive exploration: 0, 1 (and in the thorough tier 2)
edits away from a set of small valid seed pages that together cover every
construct of the format, plus all short token strings; every text is compiled by
the real compiler and judged against the parser's own syntax-error counter; one
representative per outcome class is then pushed through the real `db create` /
`db reindex` commands.
"""

from __future__ import annotations

import itertools as it
import re

from mc.core import framework as F
from mc.core import harness as H
from mc.core import zo
from mc.core import zdir as Z
from mc.models import index_reader as IR

ID = "C08"
LEVEL = "exploration"

H1R, H2R, H3R, H4R = "#" * 32, "=" * 24, "+" * 16, "-" * 8

SEEDS = [
    "# Title #area k::v\n# second hk::hv\n\n- 240101#0A plain note @ctx\no P1 todo with +prj\n",
    "# T\n\n- 240101#0B multi line\n  cont words\n  * bullet one\n    - sub bullet\n      + deep bullet\n",
    "# T\n\n- 240101#0C props\n  * due:: 2024-06-01\n  * who:: a b\nx 240102 240101#0D done\n",
    f"# T\n\n{H1R} H1 #a1\n\n- n1\n\n{H2R} H2 2024-01-02\n\n~ n2\n",
    f"# T\n\n{H2R} H2\n\n{H3R} H3 [[p]]\n\n{H4R} H4 k::v\n\n< blocked\n> parent\n",
    "# T\n\n- links [[pg]] [[d/pg#anc]] [#gid] [^loc] [@rid] [240101#0E] ((emb))\n",
    "# T\n\n- url https://ex.com/a/b?q=1 and [ik:: v w] and \"quoted words\" 'single q'\n",
    "# T\n\n- 2024-03-04 long date note %person\n# in-block comment #ctag\no P9 after comment\n\n- second block\n",
    "# T\n\n- a:: b\n  * c:: d\n    - e:: f\n      + g:: h\n",
    "# T 2024-02-02\n#\n# ^ = [[parent]]\n\no 1230 time 240512 date P5 prio o x - words\n",
    "# T\n\n- (paren) word, comma; semi: colon! q? a&b a=b a*b a_b a/b a.b a-b\n",
    f"# T\n\n- 240101#0F first\n\n\n- 240101#0G after two blanks\n{H1R} Tight\n- right after header\n",
]
SEED_NOTES = [2, 1, 2, 2, 2, 1, 1, 3, 1, 1, 1, 3]

SIGMA_FULL = [" ", "\n", "\t", "\r", "#", "-", "o", "x", "~", "<", ">", ":", "*", "[", "]", "(", ")",
              "'", '"', "P", "0", "9", "+", "@", "%", "=", "/", ".", "é", "\x00"]
SIGMA_QUICK = [" ", "\n", "#", "-", "o", ":", "*", "[", "]", "'", "P", "9"]

_ITEM_RE = re.compile(r"^[-ox~<>]")


def expected_note_count(text: str) -> int:
    """Items with a non-empty body in a page the parser accepted: lines that
    start at column 0 with a kind character, a space, and something non-blank
    (an optional priority may be part of that; 'o P1' alone is a todo whose body
    is 'P1')."""
    n = 0
    # the compiler reads the file as ASCII and drops every byte that is not
    text = text.encode("utf-8", "surrogateescape").decode("ascii", "ignore")
    for line in text.replace("\r\n", "\n").split("\n"):
        if len(line) < 3 or line[0] not in "-ox~<>" or line[1] != " ":
            continue
        if line[2:].strip(" ") != "":
            n += 1
    return n


def tree_reaches_note(text: str) -> bool:
    """Independent of zorg's listener: does the parse tree the generated parser
    builds for `text` contain a note/todo context with a non-blank body?  (Only
    then can the listener notice that the page has errors.)"""
    import antlr4
    from zorg.grammar.zorg_file.ZorgFileLexer import ZorgFileLexer
    from zorg.grammar.zorg_file.ZorgFileParser import ZorgFileParser

    # walk_zorg_page reads the file as ASCII and drops undecodable bytes
    ascii_text = text.encode("utf-8", "surrogateescape").decode("ascii", "ignore")
    lx = ZorgFileLexer(antlr4.InputStream(ascii_text))
    lx.removeErrorListeners()
    ps = ZorgFileParser(antlr4.CommonTokenStream(lx))
    ps.removeErrorListeners()
    tree = ps.prog()
    stack = [tree]
    while stack:
        t = stack.pop()
        if isinstance(t, (ZorgFileParser.Base_noteContext, ZorgFileParser.Base_todoContext)):
            nb = t.note_body()
            if nb is not None and nb.getText().strip() != "":
                return True
        for i in range(t.getChildCount() if hasattr(t, "getChildCount") else 0):
            stack.append(t.getChild(i))
    return False


def judge(text: str) -> tuple[dict, str | None, dict | None]:
    """Compile `text` (verbose and not) and apply the oracle.

    Returns (observation, violation signature or None, detail)."""
    r = zo.compile_text(text)
    obs = {"exc": r.get("exc_type"), "n": r["nsyntax"], "flag": r["has_errors"], "notes": len(r["notes"])}
    if r["exc"]:
        return obs, f"exception:{r['exc_type']}@{r['exc_frame']}", {"exc": r["exc"]}
    n = r["nsyntax"] or 0
    if n > 0 and not r["has_errors"]:
        reached = tree_reaches_note(text)
        sig = ("syntax-errors-unflagged:parse-tree-has-a-note" if reached or r["notes"]
               else "syntax-errors-unflagged:no-note-in-parse-tree")
        return obs, sig, {"nsyntax": n, "notes": len(r["notes"]), "parse_tree_has_note": reached}
    if n > 0 and r["notes"]:
        return obs, "flagged-page-still-yields-notes", {"nsyntax": n, "notes": len(r["notes"])}
    if n == 0 and r["has_errors"]:
        return obs, "flagged-without-parser-syntax-error", {}
    if n == 0:
        has_lex_noise = any(ord(c) > 126 or c in "\t\x00" for c in text) or "\r" in text.replace("\r\n", "")
        want = expected_note_count(text)
        if not has_lex_noise and want != len(r["notes"]):
            return obs, "accepted-page-note-count", {"expected_items": want, "observed_notes": len(r["notes"])}
    return obs, None, None


# ---- deviations -----------------------------------------------------------
def char_edits(seed: str, sigma):
    for i in range(len(seed)):
        yield ("del", i, ""), seed[:i] + seed[i + 1:]
    for i in range(len(seed) + 1):
        for c in sigma:
            yield ("ins", i, c), seed[:i] + c + seed[i:]
    for i in range(len(seed)):
        for c in sigma:
            if seed[i] != c:
                yield ("sub", i, c), seed[:i] + c + seed[i + 1:]


def line_edits(seed: str):
    lines = seed.split("\n")[:-1]
    for i in range(len(lines)):
        yield ("ldel", i), "\n".join(lines[:i] + lines[i + 1:]) + "\n"
        yield ("ldup", i), "\n".join(lines[:i + 1] + lines[i:]) + "\n"
        if i + 1 < len(lines):
            sw = lines[:i] + [lines[i + 1], lines[i]] + lines[i + 2:]
            yield ("lswap", i), "\n".join(sw) + "\n"
    yield ("no-final-newline",), seed[:-1]
    yield ("empty",), ""


def token_edits(seed: str):
    toks = zo.lex(seed, "file")
    pos = 0
    for k, (name, txt) in enumerate(toks):
        if name == "<LEXER-ERROR>":
            continue
        yield ("tdel", k), seed[:pos] + seed[pos + len(txt):]
        pos += len(txt)


def apply_edit(seed: str, e) -> str:
    e = tuple(e)
    k = e[0]
    if k == "del":
        return seed[:e[1]] + seed[e[1] + 1:]
    if k == "ins":
        return seed[:e[1]] + e[2] + seed[e[1]:]
    if k == "sub":
        return seed[:e[1]] + e[2] + seed[e[1] + 1:]
    if k in ("ldel", "ldup", "lswap", "no-final-newline", "empty"):
        for ee, t in line_edits(seed):
            if tuple(ee) == e:
                return t
    if k == "tdel":
        for ee, t in token_edits(seed):
            if tuple(ee) == e:
                return t
    raise H.HarnessError(f"bad edit {e!r}")


TOKENS_CORE = [" ", "\n", "#", "-", "o", "x", "P1", "foo", "::", "*", "[[", "]]", "[", "]",
               "240101", "240101#0A", "2024-01-01", "'", "+", H1R]
TOKENS_Q = [" ", "\n", "#", "-", "o", "P1", "foo", "::", "*", "[[", "240101#0A", H2R]
DIGIT_WORDS = ["1234", "123456", "12345678", "123456789", "1234567890", "241945#AB", "2024-19-39", "991332",
               # month and day in range, but not on the calendar
               "240230", "230229", "240431", "240931", "240230#AB", "230229#0A", "2023-02-29", "2024-04-31",
               "2024-02-30", "240229", "2024-02-29", "240000", "240100", "2024-00-10"]


def _text_of(case):
    kind = case[0]
    if kind == "seed":
        return SEEDS[case[1]]
    if kind == "edit1":
        return apply_edit(SEEDS[case[1]], case[2])
    if kind == "edit2":
        t = apply_edit(SEEDS[case[1]], case[2])
        return apply_edit(t, case[3])
    if kind == "tokens":
        return "# h\n\n" + "".join(case[1]) + "\n"
    if kind == "digits":
        return "# h\n\n" + case[1] + "\n"
    raise H.HarnessError(f"bad case {case!r}")


def _run_case(ctx, case) -> F.Outcome:
    if case[0] == "cmd":
        return _run_cmd_case(ctx, case)
    out = F.Outcome()
    text = _text_of(case)
    obs, sig, detail = judge(text)
    if (obs["n"] or 0) > 0 or case[0] != "seed":
        out.n_nontrivial = 1
    if case[0] == "seed" and sig is None:
        if obs["n"] != 0 or obs["notes"] != SEED_NOTES[case[1]]:
            sig, detail = "seed-page-not-compiled-as-written", {"obs": obs, "expected_notes": SEED_NOTES[case[1]]}
    cls = (obs["exc"], (obs["n"] or 0) > 0, bool(obs["flag"]), min(obs["notes"], 3))
    out.counters = {f"class:{cls}": 1}
    out.obs = H.digest(obs)
    if sig:
        out.ok = False
        out.sig = sig
        out.detail = {"text": text, "observation": obs, "problem": detail}
    return out


# ---- command level ----------------------------------------------------------
CMD_TEXTS = [
    ("clean-2-notes", SEEDS[0]),
    ("syntax-error-no-note-reached", "hello world\n"),
    ("syntax-error-after-header", "# t\n\nfoo bar\n"),
    ("syntax-error-among-notes", "# t\n\n- 240101#0A ok note\n-- broken\n- another\n"),
    ("syntax-error-last-line", "# t\n\n- 240101#0A ok note\no\n"),
    ("empty-file", ""),
    ("header-only", "# just a header\n"),
]
# valid pages whose ZID-less items have unusual one- or two-word bodies: the compiler alone
# is not the whole of indexing (ZID assignment, SQL conversion and write-back run as well)
for _pre in ("- ", "o ", "o P1 ", "x "):
    for _w in ("2024-03-13", "240313", "P1", "o", "x", "1230", "[[x]]", "#t", "k::v", "[k:: v w]",
               "2024-03-13 x", "P1 P2", "2024-03-13\n  * bullet", "a\n  2024-03-13"):
        CMD_TEXTS.append((f"unusual-item:{_pre}{_w}".replace("\n", "\\n"), f"# h\n\n{_pre}{_w}\n"))
# contents that are not valid UTF-8 (a lone surrogate \udcXX stands for the raw byte XX): a page saved
# as ISO-8859-1, a stray 0xFF, a multi-byte sequence cut off by the end of the line / of the file
RAW_BYTES = ["- 240101#0A caf\udce9 au lait", "- caf\udce9 without a zid", "# caf\udce9\n\n- 240101#0A n",
             "- 240101#0A stray \udcff byte", "- 240101#0A cut \udcc3", "- a\n  * k:: \udce9t\udce9",
             "\udcef\udcbb\udcbf- 240101#0A after a BOM", "- 240101#0A ok\n\udc80\udc80", "- 240101#0A two \udce9\udce8 x"]
for _k, _t in enumerate(RAW_BYTES):
    CMD_TEXTS.append((f"unusual-item:raw-bytes-{_k}", f"# h\n\n{_t}\n"))
# names that are also parameter names of the code that stores them, as real tags and properties
CMD_TEXTS.append(("unusual-item:reserved-names", "# h event::hv self::x\n\n"
                  + "".join(f"- 2401{10 + _n}#R{_n} note {_k}::v{_n} #{_k} @{_k} [{_k}x:: a b]\n" for _n, _k in enumerate(
                      ("event", "self", "cls", "args", "kwargs", "name", "key", "value", "id", "type", "format", "level")))
                  + "- 240130#RZ quoted \"event::q\" '[msg:: a b]'\n"))


def _run_cmd_case(ctx, case) -> F.Outcome:
    if case[1] == "whitelist-lookalike":
        return _run_whitelist_lookalike(ctx, case)
    if case[1] == "whitelist-lifecycle":
        return _run_whitelist_lifecycle(ctx, case)
    if case[1] == "long-tail":
        return _run_long_tail(ctx, case)
    _, name, text, mode = case[:4]
    from_sub = len(case) > 4 and case[4] == "from-sub"
    day = H.DEFAULT_DAY
    out = F.Outcome()
    r0 = zo.compile_text(text)
    n = r0["nsyntax"] or 0
    broken = n > 0
    want_notes = expected_note_count(text) if not broken else 0
    good = "# good\n\n- 240102#G1 good note\n"
    zd = Z.make_zdir({"good.zo": good, "zz_target.zo": text})
    problems = []
    if from_sub:
        # the command is started from <notes directory>/sub, which holds clean pages with the very names
        # of the pages of the notes directory (a backup, a project of its own): page names are relative
        # to --dir, never to the working directory
        (zd / "sub").mkdir()
        Z.write_text(zd / "sub" / "zz_target.zo", "# clean twin\n\n- 240104#S1 a clean note in the sub-directory\n")
        Z.write_text(zd / "sub" / "good.zo", "# clean twin\n\n- 240104#S2 another clean note\n")
        H.set_cli_cwd(zd / "sub")
    try:
        if mode == "create":
            r = Z.db_create(zd, day)
            idx = IR.read_index(zd)
            if broken and Z.cli_ok(r):
                problems.append(("create-accepted-broken-page", {"index": idx["pages"].get("zz_target.zo")}))
            if not broken and not Z.cli_ok(r):
                problems.append(("create-refused-clean-page", {"err": r.err[-400:]}))
            if not broken:
                got = len(idx["pages"].get("zz_target.zo", {}).get("notes", []))
                if got != want_notes:
                    problems.append(("clean-page-notes-not-all-indexed", {"expected": want_notes, "observed": got}))
        elif mode == "create-f":
            r = Z.db_create(zd, day, force=True)
            idx = IR.read_index(zd)
            wl = (zd / ".zorg" / "error_file_whitelist.txt").read_text().split("\n") if (zd / ".zorg" / "error_file_whitelist.txt").exists() else []
            if not Z.cli_ok(r):
                problems.append(("create-f-failed", {"err": r.err[-400:]}))
            else:
                if broken and "zz_target.zo" not in wl:
                    problems.append(("broken-page-not-whitelisted", {"whitelist": wl}))
                if not broken and "zz_target.zo" in wl:
                    problems.append(("clean-page-whitelisted", {"whitelist": wl}))
                pg = idx["pages"].get("zz_target.zo")
                if broken and pg is not None and (pg["notes"] or not pg["has_errors"]):
                    problems.append(("broken-page-indexed-as-partial-or-clean", {"page": pg}))
                # second plain create must accept the whitelisted page and still flag it
                r2 = Z.db_create(zd, day)
                if not Z.cli_ok(r2):
                    problems.append(("whitelisted-page-refused-on-next-create", {"err": r2.err[-400:]}))
        elif mode == "reindex":
            (zd / "zz_target.zo").write_text("# t\n\n- 240103#T1 fine before\n")
            r = Z.db_create(zd, day)
            if not Z.cli_ok(r):
                raise H.HarnessError("setup create failed: " + r.err[-300:])
            Z.write_text(zd / "zz_target.zo", text)
            r = Z.db_reindex(zd, day)
            idx = IR.read_index(zd)
            if broken and Z.cli_ok(r):
                problems.append(("reindex-accepted-broken-page", {"index": idx["pages"].get("zz_target.zo")}))
            if broken and not Z.cli_ok(r):
                # refused: the page must not have been re-indexed as an empty / partial page on the way
                pg = idx["pages"].get("zz_target.zo")
                zids = sorted(n["zid"] for n in pg["notes"]) if pg else None
                if zids != ["240103#T1"]:
                    problems.append(("refused-page-no-longer-indexed-as-it-was", {"notes_now": zids, "has_errors": pg and pg["has_errors"]}))
            if not broken and not Z.cli_ok(r):
                problems.append(("reindex-refused-clean-page", {"err": r.err[-400:]}))
            if not broken:
                got = len(idx["pages"].get("zz_target.zo", {}).get("notes", []))
                if got != want_notes:
                    problems.append(("clean-page-notes-not-all-indexed-by-reindex", {"expected": want_notes, "observed": got}))
            if broken:
                pg = idx["pages"].get("zz_target.zo")
                if pg is not None and not pg["has_errors"] and len(pg["notes"]) == 0 and Z.cli_ok(r):
                    problems.append(("broken-page-indexed-as-empty", {"page": pg}))
        out.obs = H.digest([name, mode, [p[0] for p in problems]])
        out.nontrivial = H.digest([name, mode])
        if problems:
            out.ok = False
            suffix = ""
            if broken and not tree_reaches_note(text):
                suffix = ":no-note-in-parse-tree"
            out.sig = f"command:{problems[0][0]}{suffix}"
            out.detail = {"name": name, "mode": mode, "text": text, "nsyntax": n, "problems": problems}
    finally:
        H.set_cli_cwd(None)
        Z.drop(zd)
    return out


BROKEN = "# t\n\n- 240101#0A ok note\n-- broken\n- another\n"
CLEAN = "# t\n\n- 240102#0B fine note\n"


def _run_whitelist_lookalike(ctx, case) -> F.Outcome:
    """A whitelisted broken page must not excuse another page whose path merely
    contains, or is contained in, the whitelisted path."""
    _, _, wl_path, new_path, mode = case
    day = H.DEFAULT_DAY
    out = F.Outcome()
    zd = Z.make_zdir({wl_path: BROKEN, new_path: CLEAN, "good.zo": "# g\n\n- 240103#0C good\n"})
    try:
        r = Z.db_create(zd, day, force=True)  # whitelists wl_path only
        wlf = zd / ".zorg" / "error_file_whitelist.txt"
        wl = wlf.read_text().split("\n") if wlf.exists() else None
        if not Z.cli_ok(r) or wl != [wl_path]:
            # `db create -f` on a directory with exactly one broken page must succeed and
            # whitelist exactly that page
            out.ok = False
            out.sig = "command:force-create-did-not-whitelist-exactly-the-broken-page"
            out.detail = {"broken_page": wl_path, "whitelist": wl, "exit_ok": Z.cli_ok(r), "stderr": r.err[-300:]}
            out.obs = H.digest([Z.cli_ok(r), wl])
            return out
        (zd / new_path).write_text(BROKEN.replace("0A", "0D"))
        r = Z.db_create(zd, day) if mode == "create" else Z.db_reindex(zd, day)
        idx = IR.read_index(zd)
        wl_after = (zd / ".zorg" / "error_file_whitelist.txt").read_text().split("\n")
        problem = None
        if Z.cli_ok(r):
            problem = (f"{mode}-accepted-newly-broken-page-next-to-whitelisted-lookalike",
                       {"whitelisted": wl_path, "newly_broken": new_path, "whitelist_after": wl_after,
                        "indexed": {p: len(v["notes"]) for p, v in idx["pages"].items()}})
        elif new_path in wl_after:
            problem = ("newly-broken-page-whitelisted-without-force", {"whitelist_after": wl_after})
        out.obs = H.digest([Z.cli_ok(r), wl_after])
        out.nontrivial = H.digest(case)
        if problem:
            out.ok = False
            out.sig = "command:" + problem[0]
            out.detail = problem[1]
    finally:
        Z.drop(zd)
    return out


def _run_long_tail(ctx, case) -> F.Outcome:
    """A long indexed page (well over 8 KiB) is changed only at its very end: a syntax error
    there must be refused by db reindex, a valid new note there must be indexed."""
    _, _, what = case
    day = H.DEFAULT_DAY
    out = F.Outcome()
    sfx = "0123456789ABCDEFGHJKLMNPRTUVWXYZ"
    long_page = "# LONG\n\n" + "".join(
        f"- 240601#{sfx[(k // 30) % 30]}{sfx[k % 30]} journal entry number {k} with some more words to make the line long enough\n"
        for k in range(150))
    zd = Z.make_zdir({"good.zo": "# good\n\n- 240102#G1 good note\n", "long.zo": long_page})
    problems = []
    try:
        r = Z.db_create(zd, day)
        if not Z.cli_ok(r):
            raise H.HarnessError("long-tail setup failed: " + r.err[-300:])
        n0 = len(IR.read_index(zd)["pages"]["long.zo"]["notes"])
        tail = "-- broken line at the very end\n" if what == "broken" else "- 240602#ZZ a valid note added at the very end\n"
        (zd / "long.zo").write_text(long_page + tail)
        r = Z.db_reindex(zd, day)
        n1 = len(IR.read_index(zd)["pages"].get("long.zo", {}).get("notes", []))
        if what == "broken":
            if Z.cli_ok(r):
                problems.append(("reindex-accepted-broken-page", {"notes_before": n0, "notes_after": n1, "stdout": r.out[-200:]}))
            elif n1 != n0:
                problems.append(("refused-page-no-longer-indexed-as-it-was", {"notes_before": n0, "notes_after": n1}))
        else:
            if not Z.cli_ok(r):
                problems.append(("reindex-refused-clean-page", {"err": r.err[-300:]}))
            elif n1 != n0 + 1:
                problems.append(("clean-page-notes-not-all-indexed-by-reindex", {"expected": n0 + 1, "observed": n1}))
        out.obs = H.digest([what, [p[0] for p in problems]])
        out.nontrivial = H.digest(case)
        if problems:
            out.ok = False
            out.sig = "command:" + problems[0][0] + ":long-page-changed-at-its-end"
            out.detail = {"page_bytes": len(long_page), "appended": tail, "problem": problems[0][1]}
    finally:
        Z.drop(zd)
    return out


def _run_whitelist_lifecycle(ctx, case) -> F.Outcome:
    """broken+whitelisted -> (still broken: accepted, flagged, no notes) -> fixed:
    leaves the whitelist, all notes indexed -> broken again: refused."""
    _, _, mode = case
    day = H.DEFAULT_DAY
    out = F.Outcome()
    zd = Z.make_zdir({"w.zo": BROKEN, "good.zo": "# g\n\n- 240103#0C good\n"})
    wlp = zd / ".zorg" / "error_file_whitelist.txt"
    run = (lambda: Z.db_create(zd, day)) if mode == "create" else (lambda: Z.db_reindex(zd, day))
    problems = []
    try:
        r = Z.db_create(zd, day, force=True)
        wl0 = wlp.read_text().split("\n") if wlp.exists() else None
        if not Z.cli_ok(r) or wl0 != ["w.zo"]:
            out.ok = False
            out.sig = "command:force-create-did-not-whitelist-exactly-the-broken-page"
            out.detail = {"broken_page": "w.zo", "whitelist": wl0, "exit_ok": Z.cli_ok(r), "stderr": r.err[-300:]}
            out.obs = H.digest([Z.cli_ok(r), wl0])
            return out
        # 1. still broken, edited: accepted because whitelisted, flagged, no notes
        (zd / "w.zo").write_text(BROKEN + "- 240104#0E one more\n")
        r = run()
        pg = IR.read_index(zd)["pages"].get("w.zo")
        if not Z.cli_ok(r):
            problems.append(("whitelisted-broken-page-refused", {"stderr": r.err[-300:]}))
        elif pg is None or not pg["has_errors"] or pg["notes"]:
            problems.append(("whitelisted-broken-page-not-indexed-as-flagged-and-empty", {"page": pg}))
        elif wlp.read_text().split("\n") != ["w.zo"]:
            problems.append(("whitelist-lost-a-still-broken-page", {"whitelist": wlp.read_text()}))
        # 2. fixed: leaves the whitelist, every note indexed
        (zd / "w.zo").write_text("# t\n\n- 240101#0A ok note\n- 240105#0F another\n")
        r = run()
        pg = IR.read_index(zd)["pages"].get("w.zo")
        if not Z.cli_ok(r):
            problems.append(("fixed-page-refused", {"stderr": r.err[-300:]}))
        elif pg is None or pg["has_errors"] or len(pg["notes"]) != 2:
            problems.append(("fixed-page-not-fully-indexed", {"page": pg}))
        elif "w.zo" in wlp.read_text().split("\n"):
            problems.append(("fixed-page-still-whitelisted", {"whitelist": wlp.read_text()}))
        # 3. broken again, no longer whitelisted: refused
        (zd / "w.zo").write_text(BROKEN)
        r = run()
        if Z.cli_ok(r):
            problems.append(("page-broken-again-after-leaving-the-whitelist-accepted", {"whitelist": wlp.read_text()}))
        out.obs = H.digest([p[0] for p in problems])
        out.nontrivial = H.digest(case)
        if problems:
            out.ok = False
            out.sig = "command:" + problems[0][0] + ":" + mode
            out.detail = {"mode": mode, "problems": problems}
    finally:
        Z.drop(zd)
    return out


def _cases(ctx):
    quick = ctx.quick
    sigma = SIGMA_QUICK if quick else SIGMA_FULL
    seeds = [0, 2, 4, 8] if quick else list(range(len(SEEDS)))
    flat = [["seed", i] for i in range(len(SEEDS))]
    for si in seeds:
        s = SEEDS[si]
        for e, _ in char_edits(s, sigma):
            flat.append(["edit1", si, list(e)])
        for e, _ in line_edits(s):
            flat.append(["edit1", si, list(e)])
        for e, _ in token_edits(s):
            flat.append(["edit1", si, list(e)])
    n_dev1 = len(flat)
    if not quick:
        for si in range(len(SEEDS)):
            s = SEEDS[si]
            les = [list(e) for e, _ in line_edits(s) if e[0] in ("ldel", "ldup", "lswap")]
            for e1 in les:
                t1 = apply_edit(s, e1)
                for e2, _ in line_edits(t1):
                    if e2[0] in ("ldel", "ldup", "lswap"):
                        flat.append(["edit2", si, e1, list(e2)])
    n_dev2 = len(flat) - n_dev1
    toks = TOKENS_Q if quick else TOKENS_CORE
    maxlen = 3 if quick else 3
    for n in range(1, maxlen + 1):
        for ts in it.product(toks, repeat=n):
            flat.append(["tokens", list(ts)])
    for dw in DIGIT_WORDS:
        for pre in ("- ", "o ", "o P1 ", "- 240101 ", "- x ", "# "):
            for post in ("", " widgets"):
                flat.append(["digits", pre + dw + post])
    # bracket / '::' shapes the grammar accepts as (inline) properties
    for w in ("[a::b::c]", "[a::b/c::d]", "[a::b c::d]", "[a:: b]", "[a::b]", "[a:: b c d]", "[a::b:c]", "a::b::c",
              "[a::[b]]", "[[a::b]]", "[a::]", "[::b]", "a::", "::b", "[a:: b::c d]", "[#a::b]", "[^a::b]", "((a::b))",
              "'[a::b::c]'", "\"a::b::c\"", "[k:: v] [k:: w]", "https://x.y/a::b"):
        for pre in ("- ", "o P1 240101#0A ", "# ", "# t\n\n################################ "):
            flat.append(["digits", pre + w + " tail" if not pre.endswith("# ") or True else pre + w])
    # property keys / tag names that are also parameter names of logging, formatting and ORM calls
    # (a name chosen by the user must never be taken for an argument of the code that handles it)
    for key in ("event", "self", "cls", "args", "kwargs", "msg", "level", "name", "key", "value", "exc_info",
                "stack_info", "extra", "positional_args", "_record", "logger", "method_name", "format", "id", "type"):
        for shape in ('"{k}::launch"', "'{k}::launch'", "{k}::launch", "[{k}:: a b]", '"[{k}:: a b]"', "#{k} @{k} %{k} +{k}",
                      '"#{k}"', "[[{k}]] [#{k}] [@{k}] [^{k}]"):
            flat.append(["digits", "- the flyer said " + shape.replace("{k}", key) + " there"])
        flat.append(["digits", "- a note\n  * " + key + ":: bullet value"])
        flat.append(["digits", "# head " + key + "::hv\n\n- a note under it"])
    for t in RAW_BYTES:
        flat.append(["digits", t])
        flat.append(["digits", t + "\n- 240102#0B a clean note after it"])
    for bm in ("  * ", "    - ", "      + "):
        for body in ("k::", "k:: v", ":: v", "k::  *   * c", "::", "k::\n" + bm + "j:: w"):
            flat.append(["digits", "- a:: b\n" + bm + body])
            flat.append(["digits", "- plain\n" + bm + body])
    n_texts = len(flat)
    for name, text in CMD_TEXTS:
        for mode in ("create", "create-f", "reindex"):
            if name.startswith("unusual-item:") and mode == "create-f":
                continue
            flat.append(["cmd", name, text, mode])
            if not name.startswith("unusual-item:") and mode != "create-f":
                flat.append(["cmd", name, text, mode, "from-sub"])
    for wl_path, new_path in (("archive/journal.zo", "journal.zo"), ("journal.zo", "archive/journal.zo"),
                              ("p10.zo", "p1.zo"), ("p1.zo", "p10.zo"), ("ab.zo", "b.zo"), ("a/b.zo", "a/b.zo.zo")):
        for mode in ("create", "reindex"):
            flat.append(["cmd", "whitelist-lookalike", wl_path, new_path, mode])
    for mode in ("create", "reindex"):
        flat.append(["cmd", "whitelist-lifecycle", mode])
    for what in ("broken", "valid"):
        flat.append(["cmd", "long-tail", what])
    return flat, {"deviation0": len(SEEDS), "deviation1": n_dev1 - len(SEEDS), "deviation2": n_dev2,
                    "token_strings_and_digit_words": n_texts - n_dev1 - n_dev2,
                    "command_level": sum(2 if n.startswith("unusual-item:") else 3 for n, _ in CMD_TEXTS) + 16, "sigma": len(sigma), "seeds_edited": len(seeds)}


def run(ctx: F.Ctx):
    chunks, counts = _cases(ctx)
    rep = F.explore(ctx, chunks, lambda c: _run_case(ctx, c),
                    sample=lambda c: ({"command_case": c[1:]} if c[0] == "cmd" else {"text": _text_of(c), "case": c}),
                    twice_every=2003)
    meta = {
        "rule": (
            "deviation 0: 12 valid seed pages (must compile to exactly the notes written); "
            "deviation 1: every single-character deletion, every insertion/substitution of every "
            "symbol of Sigma at every position, every line deletion/duplication/adjacent swap, "
            "every token deletion, missing final newline, empty file; deviation 2 (thorough): "
            "all pairs of line-level edits on every seed; all token strings up to length 3 over "
            "the token core after a minimal header; length-triggered digit words and bullet/'::' "
            "adjacency cases. Oracle: no exception; parser syntax errors > 0 => flagged and no "
            "notes; 0 => not flagged and note count = item lines with a body. Then one "
            "representative per outcome class through real db create / db create -f / db reindex. "
            "Non-trivial = any damaged text or text with syntax errors (distinct by construction)."
        ),
        "bounds": counts,
        "assumptions": [
            "lexer-level 'token recognition' errors (tab, NUL, non-ASCII) are not parser-reported; such texts are judged for 'no exception' and flag consistency only",
            "note count for accepted damaged pages uses a line-shape rule (kind char + space + optional priority + non-blank rest)",
        ],
        "exhaustive": True,
    }
    return rep, meta


def replay(case, ctx: F.Ctx) -> F.Outcome:
    return _run_case(ctx, list(case))
