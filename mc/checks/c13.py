"""C13 — Re-running an interrupted index operation converges.

Crash-point enumeration: for every scenario the real command is first run
uninterrupted in a child with an interposer that records its external effects;
then, for every effect boundary k, the command is re-run on a fresh copy and the
child is killed immediately before effect k; the same command is run again to
completion (recovery) and the recovery invariant is checked.  The thorough tier
adds a torn variant of every file write and all pairs (crash during recovery).
"""

from __future__ import annotations

import datetime as dt
import re
from collections import Counter
from pathlib import Path

from mc.core import dirstate as D
from mc.core import framework as F
from mc.core import harness as H
from mc.core import interpose as IP
from mc.core import zdir as Z
from mc.models import edit_model as EM
from mc.models import index_reader as IR

ID = "C13"
LEVEL = "fault_enumeration"
H1R = "#" * 32
_DAYS = [dt.date(2024, 5, 15), dt.date(2025, 2, 27), dt.date(2026, 12, 30)]
_ZID_ANY = re.compile(r"\b\d{6}#[0-9A-Za-z]{2,3}\b")


# ---------------------------------------------------------------------------
# scenarios: (name, builder(day) -> (zdir, day_of_command), argv tail)
# ---------------------------------------------------------------------------
def _s1(day):
    files = {
        "a.zo": "# A #ta\n\n- 240101#A1 has zid\n- new note one\no P1 new todo two\n",
        "sub/b.zo": f"# B\n\n- 240102#B1 has zid\n\n{H1R} Sec\n\n- 2024-03-03 new dated three\n",
    }
    return Z.make_zdir(files, "c13b"), day, ["db", "create"]


def _s2(day):
    files = {
        "a.zo": "# A #ta\n\n- 240101#A1 will be edited v0\n- 240101#A2 untouched\n",
        "b.zo": "# B\n\n- 240102#B1 untouched page\n",
    }
    zd = Z.make_zdir(files, "c13b")
    r = Z.db_create(zd, day)
    if not Z.cli_ok(r):
        raise H.HarnessError("S2 setup failed " + r.err[-300:])
    (zd / "a.zo").write_text("# A #ta\n\n- 240101#A1 will be edited v1\n- 240101#A2 untouched\no brand new todo\n")
    (zd / "c.zo").write_text("# C\n\n- new page note\n")
    (zd / "proj" / "deep").mkdir(parents=True)
    (zd / "proj" / "deep" / "d.zo").write_text("# D\n\n- 240104#D1 has zid\n- new note on a page in a sub-directory\n")
    return zd, day + dt.timedelta(days=1), ["db", "reindex"]


def _s3(day):
    files = {
        "a.zo": "# A\n\n- 240101#A1 holder #rare v0\n",
        "b.zo": "# B\n\n- 240102#B1 holder two #rare v0\n",
        "c.zo": "# C\n\n- 240103#C1 other holder #rare\n",
    }
    zd = Z.make_zdir(files, "c13b")
    r = Z.db_create(zd, day)
    if not Z.cli_ok(r):
        raise H.HarnessError("S3 setup failed " + r.err[-300:])
    (zd / "a.zo").write_text("# A\n\n- 240101#A1 holder #rare v1\n")
    (zd / "b.zo").write_text("# B\n\n- 240102#B1 holder two #rare v1\n")
    (zd / "c.zo").write_text("# C\n\n- 240103#C1 other holder\n")
    return zd, day + dt.timedelta(days=1), ["db", "reindex"]


def _s4(day):
    files = {
        "good.zo": "# G\n\n- new good note\n",
        "zbroken.zo": "# t\n\n- 240101#X1 ok note\n-- broken\n",
    }
    return Z.make_zdir(files, "c13b"), day, ["db", "create", "-f"]


def _s5(day):
    """Changes that need no write-back: a new page whose notes carry ZIDs, a
    deleted page, a page edited only in its header."""
    files = {
        "a.zo": "# A #ta\n\n- 240101#A1 stays\n",
        "b.zo": "# B\n\n- 240102#B1 on a page that will be deleted\n",
        "c.zo": "# C #old\n\n- 240103#C1 header will change\n",
    }
    zd = Z.make_zdir(files, "c13b")
    r = Z.db_create(zd, day)
    if not Z.cli_ok(r):
        raise H.HarnessError("S5 setup failed " + r.err[-300:])
    (zd / "b.zo").unlink()
    (zd / "c.zo").write_text("# C #new\n\n- 240103#C1 header will change\n")
    (zd / "n.zo").write_text("# N\n\n- 240104#N1 new page, note already has a zid\n")
    return zd, day, ["db", "reindex"]


def _s6(day):
    """The page that is re-indexed holds, after the edited note, notes with properties
    and single-use tags: removing the old page commits several times on the way."""
    files = {
        "a.zo": "# A\n\n- 240101#A1 edited first note v0\n- 240101#A2 second k::v1 +solo\n"
                "o P2 240101#A3 third due::2024-06-01 @only [[b]]\n- 240101#A4 edited last note v0 k::v2\n",
        "b.zo": "# B\n\n- 240102#B1 untouched page k::v1\n",
    }
    zd = Z.make_zdir(files, "c13b")
    r = Z.db_create(zd, day)
    if not Z.cli_ok(r):
        raise H.HarnessError("S6 setup failed " + r.err[-300:])
    t = (zd / "a.zo").read_text()
    (zd / "a.zo").write_text(t.replace("first note v0", "first note v1").replace("last note v0", "last note v1"))
    return zd, day + dt.timedelta(days=1), ["db", "reindex"]


def _s7(day):
    """A page renamed, a note cut from one page and pasted (with its ZID) into an earlier-sorted
    page whose header gives an inherited property another value, and an edit next to it."""
    files = {
        "a.zo": "# A\n# st::active\n\n- 240101#A1 stays in a v0\n",
        "m.zo": "# M\n# st::backlog\n\n- 240102#M1 will move to a\n- 240102#M2 stays in m v0\n",
        "old.zo": "# OLD\n\n- 240103#X1 on the page that gets renamed [[a]]\n",
    }
    zd = Z.make_zdir(files, "c13b")
    r = Z.db_create(zd, day)
    if not Z.cli_ok(r):
        raise H.HarnessError("S7 setup failed " + r.err[-300:])
    (zd / "a.zo").write_text("# A\n# st::active\n\n- 240101#A1 stays in a v1\n- 240102#M1 will move to a\n")
    (zd / "m.zo").write_text("# M\n# st::backlog\n\n- 240102#M2 stays in m v1\n")
    (zd / "old.zo").rename(zd / "new.zo")
    return zd, day + dt.timedelta(days=1), ["db", "reindex"]


def _s8(day):
    """A whitelisted broken page has been repaired (it must leave the whitelist and be indexed
    in full) while another page gained a ZID-less note."""
    files = {
        "good.zo": "# G\n\n- 240101#G1 good note\n",
        "w.zo": "# W\n\n- 240102#W1 ok note\n-- broken line\n- 240102#W2 after the broken line\n",
    }
    zd = Z.make_zdir(files, "c13b")
    r = Z.db_create(zd, day, force=True)
    if not Z.cli_ok(r):
        raise H.HarnessError("S8 setup failed " + r.err[-300:])
    (zd / "w.zo").write_text("# W\n\n- 240102#W1 ok note\n- 240102#W2 after the broken line\n- brand new on the repaired page\n")
    (zd / "good.zo").write_text("# G\n\n- 240101#G1 good note\no new todo on the good page\n")
    return zd, day, ["db", "reindex"]


def _s10(day):
    """A whitelisted broken page has been repaired and NOTHING needs a write-back: the only
    things the run has to change are the index, the hash map and the whitelist."""
    files = {
        "good.zo": "# G\n\n- 240101#G1 good note\n",
        "w.zo": "# W\n\n- 240102#W1 ok note\n-- broken line\n- 240102#W2 after the broken line\n",
    }
    zd = Z.make_zdir(files, "c13b")
    r = Z.db_create(zd, day, force=True)
    if not Z.cli_ok(r):
        raise H.HarnessError("S10 setup failed " + r.err[-300:])
    (zd / "w.zo").write_text("# W\n\n- 240102#W1 ok note\n- 240102#W2 after the broken line\n")
    return zd, day, ["db", "reindex"]


def _s9(day):
    """New ZID-less notes on the SAME day as an earlier run that already handed out ZIDs of
    that date (they are in the files): the counters in next_ids.json must survive."""
    files = {
        "a.zo": "# A\n\n- first note of the day\no second note of the day\n",
        "b.zo": "# B\n\n- third note of the day\n",
    }
    zd = Z.make_zdir(files, "c13b")
    r = Z.db_create(zd, day)
    if not Z.cli_ok(r):
        raise H.HarnessError("S9 setup failed " + r.err[-300:])
    (zd / "a.zo").write_text((zd / "a.zo").read_text() + "- fourth, added later the same day\n")
    (zd / "b.zo").write_text((zd / "b.zo").read_text() + "o fifth, added later the same day\n- sixth\n")
    return zd, day, ["db", "reindex"]


def _s11(day):
    """`db create` over an EXISTING index (a rebuild: the old database file is deleted first) with
    more ZID-less notes on the day whose ZIDs the first run handed out: whatever the rebuild
    forgets, it must not forget which ZIDs are taken."""
    files = {
        "a.zo": "# A\n\n- first note of the day\no second note of the day\n",
        "b.zo": "# B\n\n- third note of the day\n",
    }
    zd = Z.make_zdir(files, "c13b")
    r = Z.db_create(zd, day)
    if not Z.cli_ok(r):
        raise H.HarnessError("S11 setup failed " + r.err[-300:])
    (zd / "a.zo").write_text((zd / "a.zo").read_text() + "- fourth, added before the rebuild\n")
    (zd / "b.zo").write_text((zd / "b.zo").read_text() + "o fifth, added before the rebuild\n")
    return zd, day, ["db", "create"]


def _s12(day):
    """`db reindex PAGE` (an explicit path) of a page that needs a ZID write-back AND a modify-date
    write-back, while another changed page is not named: killed anywhere, the same command run again
    must finish the named page (the other page stays as it is until a plain reindex)."""
    files = {
        "a.zo": "# A\n\n- 240101#A1 first note of a w0\no P1 240101#A2 todo of a\n",
        "b.zo": "# B\n\n- 240102#B1 note of b w0\n",
    }
    zd = Z.make_zdir(files, "c13b")
    r = Z.db_create(zd, day)
    if not Z.cli_ok(r):
        raise H.HarnessError("S12 setup failed " + r.err[-300:])
    (zd / "a.zo").write_text(files["a.zo"].replace("first note of a w0", "first note of a w1") + "- brand new on a\n")
    day2 = day + dt.timedelta(days=1)
    return zd, day2, ["db", "reindex", "{zdir}/a.zo"]  # {zdir}: the directory the command runs on (a copy of this one)


SCENARIOS = {"S1-create-new-notes": _s1, "S2-reindex-stamp-new-note-new-page": _s2,
             "S3-reindex-shared-tag": _s3, "S4-create-f-whitelist": _s4,
             "S5-reindex-without-write-back": _s5, "S6-reindex-page-with-properties-and-single-use-tags": _s6,
             "S7-reindex-renamed-page-and-moved-note": _s7, "S8-reindex-repaired-whitelisted-page": _s8,
             "S9-reindex-more-new-notes-on-a-day-that-already-has-zids": _s9,
             "S10-reindex-repaired-whitelisted-page-without-write-back": _s10,
             "S11-create-over-an-existing-index-with-more-new-notes": _s11,
             "S12-reindex-one-explicit-page-that-needs-both-write-backs": _s12}


# ---------------------------------------------------------------------------
def _instrumented(zdir_s: str, argv_tail, crash_at, torn, crash_after=None):
    rec = IP.Recorder(crash_at=crash_at, torn=tuple(torn) if torn else None, root=zdir_s, crash_after=crash_after)
    IP.install(rec)
    cfg = Path(zdir_s).parent / "org.cfg.yml"
    code = H._cli_entry(["zorg", "-c", str(cfg), "--dir", zdir_s, *[a.replace("{zdir}", zdir_s) for a in argv_tail]])
    return {"exit": code, "effects": rec.effects}


def run_cmd(zd: Path, day, argv_tail, crash_at=None, torn=None, crash_after=None) -> H.ChildResult:
    cfg = zd.parent / "org.cfg.yml"
    if not cfg.exists():
        H.write_config(cfg)
    return H.run_child(_instrumented, str(zd), list(argv_tail), crash_at, torn, crash_after, day=day)


def user_text(files: dict[str, str]) -> Counter:
    """Multiset of the user's text: item first lines without their machine
    prefix (modify date, ZID, long creation date), every other line verbatim."""
    c: Counter = Counter()
    for rel, text in files.items():
        for line in text.split("\n"):
            p = EM.split_item_line(line) if (len(line) >= 2 and line[0] in "-ox~<>" and line[1] == " ") else None
            if p is None:
                if line.strip():
                    c[(rel, line)] += 1
                continue
            ws = [w for w in p["rest"].split(" ") if w != ""]
            if ws and re.fullmatch(r"\d{6}", ws[0]):
                ws = ws[1:]
            if ws and _ZID_ANY.fullmatch(ws[0]):
                ws = ws[1:]
            if ws and re.fullmatch(r"\d{4}-\d{2}-\d{2}", ws[0]):
                ws = ws[1:]
            c[(rel, p["kind"], " ".join(ws))] += 1
    return c


def canon_fresh_zids(files: dict[str, str], index_pages: dict, known: set[str]):
    """Rename freshly allocated ZIDs (not in `known`) by order of appearance."""
    order: dict[str, str] = {}
    for rel in sorted(files):
        for z in _ZID_ANY.findall(files[rel]):
            if z not in known and z not in order:
                order[z] = f"{z[:6]}#NEW{len(order)}"

    def ren(s):
        if not isinstance(s, str):
            return s
        return _ZID_ANY.sub(lambda m: order.get(m.group(0), m.group(0)), s)

    def deep(o):
        if isinstance(o, dict):
            return {ren(k): deep(v) for k, v in o.items()}
        if isinstance(o, list):
            return [deep(v) for v in o]
        return ren(o)

    return {r: ren(t) for r, t in files.items()}, deep(index_pages)


def judge_recovered(zd: Path, day, base_files, final_ref, known_zids):
    """Recovery invariant on the state after crash(es) + one complete re-run."""
    H.freeze(day)
    files = Z.snapshot(zd, with_meta=False)
    compiled = D.compiled_pages(zd)
    idx = IR.read_index(zd)
    hard = [p for p in idx["problems"] if not p.startswith("orphan ")]
    if hard:
        return ("index-structural-problem", {"problems": hard})
    broken_ok = {"zbroken.zo"}
    for rel, pg in compiled.items():
        if pg["exc"]:
            return ("file-no-longer-compiles", {"file": rel, "exc": pg["exc"], "text": files[rel]})
        if pg["has_errors"] and rel not in broken_ok:
            return ("file-damaged", {"file": rel, "text": files[rel]})
        for n in pg["notes"]:
            if not n["zid"]:
                return ("note-left-without-zid", {"file": rel, "line": n["line"], "text": files[rel]})
    zids = [n["zid"] for pg in compiled.values() for n in pg["notes"]]
    dup = [z for z, c in Counter(zids).items() if c > 1]
    if dup:
        return ("zid-on-two-notes", {"zids": dup, "files": files})
    if user_text(files) != user_text(base_files):
        lost = user_text(base_files) - user_text(files)
        extra = user_text(files) - user_text(base_files)
        return ("user-text-lost-or-duplicated", {"lost": sorted(map(str, lost)), "extra": sorted(map(str, extra)), "files": files})
    d = D.diff_index_vs_files(idx, {r: p for r, p in compiled.items()})
    if d:
        return ("index-differs-from-files:" + d["what"], d)
    # same as the uninterrupted run, up to renaming of freshly allocated ZIDs
    cf, ci = canon_fresh_zids(files, idx["pages"], known_zids)
    if cf != final_ref["files"]:
        ch = [r for r in set(cf) | set(final_ref["files"]) if cf.get(r) != final_ref["files"].get(r)]
        return ("final-files-differ-from-uninterrupted-run", {"files": ch, "recovered": {r: cf.get(r) for r in ch},
                                                              "uninterrupted": {r: final_ref["files"].get(r) for r in ch}})
    if ci != final_ref["index"]:
        return ("final-index-differs-from-uninterrupted-run", {})
    meta_now = _meta(zd)
    if meta_now != final_ref["meta"]:
        return ("meta-stores-differ-from-uninterrupted-run", {"recovered": meta_now, "uninterrupted": final_ref["meta"]})
    return None


def _meta(zd: Path) -> dict:
    """Whitelist content, and for the hash map: which pages it lists and whether
    each recorded hash is the SHA-256 of the page as it is on disk (the hash
    values themselves depend on the freshly allocated ZIDs)."""
    import hashlib
    import json

    out = {}
    wl = zd / ".zorg" / "error_file_whitelist.txt"
    out["whitelist"] = wl.read_text() if wl.exists() else None
    hp = zd / ".zorg" / "file_hash.json"
    if hp.exists():
        try:
            m = json.loads(hp.read_text())
            out["hash_map"] = {k: ("current" if (zd / k).exists() and hashlib.sha256((zd / k).read_bytes()).hexdigest() == v
                                   else "stale") for k, v in sorted(m.items())}
        except Exception as e:  # noqa: BLE001
            out["hash_map"] = f"unreadable: {e}"
    else:
        out["hash_map"] = None
    return out


def _final_ref(zd: Path, known):
    files = Z.snapshot(zd, with_meta=False)
    idx = IR.read_index(zd)
    cf, ci = canon_fresh_zids(files, idx["pages"], known)
    return {"files": cf, "index": ci, "meta": _meta(zd)}


_SC: dict[str, dict] = {}


def _scenario(ctx, name):
    """Base directory, effect list and reference final state (built once)."""
    sc = _SC.get(name)
    if sc is None:
        day0 = H.rotate(_DAYS, ctx.seed)[0]
        H.freeze(day0)
        base, day, argv = SCENARIOS[name](day0)
        base_files = Z.snapshot(base, with_meta=False)
        known = set(z for t in base_files.values() for z in _ZID_ANY.findall(t))
        ref = Z.copy_zdir(base, tag="c13r")
        r = run_cmd(ref, day, argv)
        if r.status != "ok" or r.value["exit"] != 0:
            raise H.HarnessError(f"uninterrupted run of {name} failed: {r.status} {r.value} {r.err[-500:]}")
        effects = r.value["effects"]
        final_ref = _final_ref(ref, known)
        H.freeze(day)
        p = judge_recovered(ref, day, base_files, final_ref, known)
        Z.drop(ref)
        sc = _SC[name] = {"base": base, "day": day, "argv": argv, "effects": effects, "final": final_ref,
                          "base_files": base_files, "known": known, "uninterrupted_problem": p}
    return sc


def _run_case(ctx, case) -> F.Outcome:
    name, crashes = case[0], case[1]
    sc = _scenario(ctx, name)
    out = F.Outcome()
    if crashes == "uninterrupted":
        out.obs = H.digest(sc["effects"])
        if sc["uninterrupted_problem"]:
            out.ok = False
            out.sig = "uninterrupted:" + sc["uninterrupted_problem"][0]
            out.detail = {"scenario": name, "problem": sc["uninterrupted_problem"][1]}
        return out
    zd = Z.copy_zdir(sc["base"], tag="c13c")
    try:
        day, argv = sc["day"], sc["argv"]
        states = []
        for (k, torn) in crashes:
            if torn == "after":
                r = run_cmd(zd, day, argv, crash_after=k)
            else:
                r = run_cmd(zd, day, argv, crash_at=None if torn is not None else k,
                            torn=(k, torn) if torn is not None else None)
            if r.status == "ok":
                # the run had fewer than k effects (possible during a recovery
                # run that needs less work): it simply completed
                pass
            elif not (r.status == "killed" and r.exitcode == IP.CRASH_EXIT):
                out.ok = False
                out.sig = "crashed-run-ended-unexpectedly"
                out.detail = {"scenario": name, "crashes": crashes, "status": r.status, "exit": r.exitcode, "stderr": r.err[-800:]}
                return out
            states.append(D.state_digest(zd, day))
        post = states[-1]
        base_d = D.state_digest(sc["base"], day)
        rec = run_cmd(zd, day, argv)
        problem = None
        if rec.status != "ok" or rec.value["exit"] != 0:
            problem = ("recovery-run-failed", {"status": rec.status, "value": rec.value if rec.status == "ok" else None,
                                               "stderr": rec.err[-1500:]})
        else:
            problem = judge_recovered(zd, day, sc["base_files"], sc["final"], sc["known"])
        out.obs = H.digest([states, problem[0] if problem else None])
        out.states = tuple(states)
        out.transitions = len(crashes) + 1
        final_d = H.digest(sc["final"])
        if post != base_d:
            out.nontrivial = H.digest([name, crashes])
        if problem:
            eff = [sc["effects"][k - 1] if 0 < k <= len(sc["effects"]) else None for k, _ in crashes]
            out.ok = False
            out.sig = problem[0] + ":" + _where(sc, crashes)
            out.detail = {"scenario": name, "crash_before_effects": crashes, "effects_at_crash": eff,
                          "effect_list": sc["effects"], "problem": problem[1]}
    finally:
        Z.drop(zd)
    return out


def _where(sc, crashes) -> str:
    """Coarse location of the (first) crash for signatures: the kind of the
    effect about to happen and whether it was torn."""
    k, torn = crashes[0]
    e = sc["effects"][k - 1] if 0 < k <= len(sc["effects"]) else ("?", "?")
    tgt = e[1]
    tgt = re.sub(r"[\w/]+\.zo\b", "*.zo", tgt)
    tgt = re.sub(r"\d+", "N", tgt)  # e.g. a process id embedded in a scratch-file name
    how = "after" if torn == "after" else ("torn" if torn is not None else "before")
    return f"{how}-{e[0]}-{tgt}" + ("+second-crash" if len(crashes) > 1 else "")


def _cases(ctx):
    cases = []
    for name in SCENARIOS:
        sc = _scenario(ctx, name)
        n = len(sc["effects"])
        cases.append([name, "uninterrupted"])
        for k in range(1, n + 1):
            cases.append([name, [[k, None]]])
        # ... and the moment effect k's call has returned (nothing that Python code after it
        # would still do -- flushing an open file, creating the database file -- has happened)
        for k in range(1, n + 1):
            cases.append([name, [[k, "after"]]])
        if not ctx.quick:
            for k, (kind, tgt) in enumerate(sc["effects"], start=1):
                if kind.startswith(("write_text", "open(")):
                    for frac in (0.0, 0.5):
                        cases.append([name, [[k, frac]]])
            for k in range(1, n + 1):
                for j in range(1, n + 1):
                    cases.append([name, [[k, None], [j, None]]])
    return cases


def _sample(ctx, case):
    sc = _scenario(ctx, case[0])
    if case[1] == "uninterrupted":
        return {"scenario": case[0], "effects_of_uninterrupted_run": sc["effects"]}
    return {"scenario": case[0], "crash_before_effect": case[1],
            "effect": [sc["effects"][k - 1] if k <= len(sc["effects"]) else None for k, _ in case[1]]}


def run(ctx: F.Ctx):
    H.freeze(H.rotate(_DAYS, ctx.seed)[0])
    try:
        cases = _cases(ctx)
        rep = F.explore(ctx, cases, lambda c: _run_case(ctx, c), sample=lambda c: _sample(ctx, c),
                        twice_every=7)
        effects = {n: _SC[n]["effects"] for n in _SC}
    finally:
        for sc in _SC.values():
            Z.drop(sc["base"])
        _SC.clear()
    meta = {
        "rule": (
            "12 scenarios (db create with three ZID-less notes on two pages; db reindex of ONE explicit page that needs a ZID and a modify-date write-back; db create over an existing index (the old database file is deleted first) with more ZID-less notes of the same day; db reindex a day later "
            "with an edited note, a new note, a new page, a new page in a sub-directory and an untouched page; db reindex with two "
            "changed pages sharing a tag whose other holder dropped it; db create -f with a broken "
            "page; db reindex after changes that need no write-back: a new page whose notes carry "
            "ZIDs, a deleted page, a header-only edit; db reindex of a page whose edited first and last notes surround notes "
            "with properties, single-use tags and a link; db reindex after a page was renamed and a note was cut "
            "and pasted with its ZID into an earlier-sorted page; db reindex after a whitelisted broken page was repaired; db reindex with more ZID-less notes on the day "
            "whose ZIDs an earlier run already handed out). Effects intercepted in program order: Path.write_text, Path.open(w), touch, "
            "unlink, rename, Session.commit. For every k in 1..N the command is killed (os._exit) "
            "immediately before effect k, and again the moment effect k's call has returned (nothing still buffered in an open file reaches the disk), then re-run to completion and judged: exits cleanly, raw "
            "index == recompiled files, every note has a ZID, no ZID on two notes, the multiset of "
            "user text is unchanged, and files/index/meta equal the uninterrupted run up to renaming "
            "of freshly allocated ZIDs. Thorough adds a torn (0% and 50%) variant of every file "
            "write and all ordered pairs (crash at k, crash again at j during recovery). Every "
            "7th case is run twice and must give identical post-crash states. Non-trivial = the "
            "post-crash state differs from the initial state."
        ),
        "bounds": {"cases": len(cases), "effects_per_scenario": {n: len(e) for n, e in effects.items()},
                   "effect_lists": effects},
        "assumptions": [
            "SQLite commit is atomic (its journal is trusted); a killed writer's uncommitted transaction is discarded",
            "no reordering of un-fsynced writes across files, no power loss",
            "directory creation (mkdir) is not a crash point",
        ],
        "exhaustive": True,
    }
    return rep, meta


def replay(case, ctx: F.Ctx) -> F.Outcome:
    try:
        return _run_case(ctx, list(case))
    finally:
        for sc in _SC.values():
            Z.drop(sc["base"])
        _SC.clear()
