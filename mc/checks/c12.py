"""C12 — A note's text form compiles back to the same note.

Part 1 (compiler round trip): every note of an enumerated family of pages is
compiled, emitted with the real `Note.to_string()`, placed under a one-line page
header, compiled again and compared with the first compilation.
Part 2 (pipeline round trip): an index is built with the real `db create`; for
every ordering key list and several filters an ungrouped `S note` selection is
rendered by the real executor, wrapped in a header, compiled, and must contain
exactly the selected notes in the rendered order; the same through a `.zoq`
page refreshed by `refresh_zoq_file`.
"""

from __future__ import annotations

import datetime as dt
import itertools as it

from mc.core import framework as F
from mc.core import harness as H
from mc.core import zo
from mc.models import zo_model as M
from mc.checks import c01

ID = "C12"
LEVEL = "exploration"
_DAYS = c01._DAYS

OWN = [("tag", "#", "t1"), ("link", "pg"), ("prop", "k", "v"), ("iprop", "ik", ["a", "b"])]
TAILS = ["single", "cont", "bullet", "bullet_lookalike", "bprop", "inner_blanks", "indent_only_line"]


def _word(seed, i):
    plain, zids, words = c01._alpha(seed)
    if i < 10:
        return M.W(words[i])
    return OWN[i - 10]


def _mk_item(seed, kind, prio, ident, widx, tail):
    item = c01._mk_item(seed, kind, prio, ident, [], tail if tail in c01.TAILS else "single")
    item.words = [_word(seed, i) for i in widx]
    if tail == "bprop":
        item.cont = [("  * ", [("bprop", "bk", ["some", "value"])]), ("  * ", [M.W("after")])]
    elif tail == "inner_blanks":
        # trailing blanks on an inner line, irregular spacing inside a line
        item.cont = [("  mid line with trailing blanks  ", []), ("  spaced   words here", []), ("  last line", [])]
    elif tail == "indent_only_line":
        item.cont = [("   ", []), ("  * after an indentation-only line", [])]
    return item


def _first_text(seed, widx):
    return M.render_word(_word(seed, widx[0]))


def _compare(first: list[dict], second: list[dict]):
    if len(first) != len(second):
        return {"what": "note-count", "expected": len(first), "observed": len(second)}
    for i, (a, b) in enumerate(zip(first, second)):
        for f in ("kind", "zid", "body", "areas", "contexts", "people", "projects", "links", "props"):
            if a[f] != b[f]:
                return {"what": f, "note": i, "expected": a[f], "observed": b[f]}
        if a["zid"]:
            for f in ("create", "modify"):
                if a[f] != b[f]:
                    return {"what": f, "note": i, "expected": a[f], "observed": b[f]}
        if a["kind"] in ("o", "<", ">") and a["priority"] != b["priority"]:
            return {"what": "priority", "note": i, "expected": a["priority"], "observed": b["priority"]}
    return None


def _roundtrip(text: str):
    r1 = zo.compile_text(text, keep_page=True)
    if r1["exc"] or r1["nsyntax"] or r1["has_errors"]:
        return r1, None, None, {"what": "input-page-rejected", "exc": r1["exc"], "nsyntax": r1["nsyntax"]}
    emitted = "".join(n.to_string() for n in r1["page"].notes)
    text2 = "# rt\n\n" + emitted
    r2 = zo.compile_text(text2, name="rt.zo")
    if r2["exc"]:
        return r1, text2, r2, {"what": "emitted-text-crashes-compiler", "exc": r2["exc"]}
    if r2["nsyntax"] or r2["has_errors"]:
        return r1, text2, r2, {"what": "emitted-text-not-a-valid-page", "nsyntax": r2["nsyntax"]}
    return r1, text2, r2, _compare(r1["notes"], r2["notes"])


def _run_case(ctx, case) -> F.Outcome:
    if case[0] == "session":
        # saved-query pages refreshed twice in ONE long-lived `zorg edit` process
        from mc.checks import sessions

        try:
            return sessions.run_case(ctx, case, {"queries", "index-vs-files"})
        finally:
            H.freeze(H.rotate(_DAYS, ctx.seed)[0])
    if case[0] == "pipe":
        from mc.checks import c12_pipeline

        try:
            return c12_pipeline.run_case(ctx, case)
        finally:
            H.freeze(H.rotate(_DAYS, ctx.seed)[0])
    if case[0] == "moved":
        from mc.checks import c12_moved

        try:
            return c12_moved.run_case(ctx, case)
        finally:
            H.freeze(H.rotate(_DAYS, ctx.seed)[0])
    if case[0] == "single":
        _, k, p, ident, widx, tail = case
        page = M.APage(title=[M.W("t")], top_blocks=[[_mk_item(ctx.seed, k, p, ident, widx, tail)]])
    else:
        _, idxs = case
        red = c01._reduced_items(ctx.seed)
        page = c01._page_multi(ctx.seed, "same_block", [red[i] for i in idxs])
    text, _ = M.render(page)
    r1, text2, r2, problem = _roundtrip(text)
    out = F.Outcome()
    out.obs = H.digest([text2, r2 and [[n.get(f) for f in ("kind", "zid", "body", "priority")] for n in r2["notes"]]])
    out.nontrivial = H.digest(case)
    if problem:
        out.ok = False
        what = problem["what"]
        sig = "roundtrip:" + what
        # classify the one compositional defect precisely so it cannot mask others
        if case[0] == "single" and case[1] in ("x", "~") and case[3] == "none" \
                and _first_text(ctx.seed, case[4]) == "P5":
            # every downstream difference (body, priority, and whatever the
            # shifted next word is then taken for) has this one cause
            sig = "roundtrip:done-todo-body-starting-with-Pn-is-reread-as-priority"
        out.sig = sig
        out.detail = {"page": text, "emitted_page": text2, "problem": problem}
    return out


def _cases(ctx):
    cases = []
    for (k, p) in c01.KP:
        for ident in c01.IDENTS:
            bodies = [[i] for i in range(14)]
            if ctx.quick:
                bodies += [[i, j] for i in range(14) for j in (0, 4, 10)]
            else:
                bodies += [[i, j] for i in range(14) for j in range(14)]
            for widx in bodies:
                first = _first_text(ctx.seed, widx)
                if c01._is_written_prefix(k, p, ident, first):
                    continue
                tails = ["single", "bullet_lookalike", "bprop", "inner_blanks", "indent_only_line"] if ctx.quick else TAILS
                if ctx.quick and len(widx) == 2:
                    rot = (widx[0] + widx[1]) % 5
                    tails = [tails[rot], tails[(rot + 2) % 5]]
                for tail in tails:
                    cases.append(["single", k, p, ident, widx, tail])
    for idxs in it.product(range(24), repeat=2):
        cases.append(["pair", list(idxs)])
    try:
        from mc.checks import c12_pipeline

        cases += c12_pipeline.cases(ctx)
    except ImportError:
        pass
    from mc.checks import c12_moved

    cases += c12_moved.cases(ctx)
    from mc.checks import sessions

    cases += [c for c in sessions.cases(ctx) if any(p.endswith(".zoq") for p in sessions.SCENARIOS[c[1]][0])]
    return cases


def _sample(ctx, case):
    if case[0] == "pipe":
        return {"pipeline_case": case}
    if case[0] == "moved":
        return {"moved_note_case": case}
    if case[0] == "session":
        from mc.checks import sessions

        return sessions.sample(case)
    if case[0] == "single":
        _, k, p, ident, widx, tail = case
        page = M.APage(title=[M.W("t")], top_blocks=[[_mk_item(ctx.seed, k, p, ident, widx, tail)]])
    else:
        red = c01._reduced_items(ctx.seed)
        page = c01._page_multi(ctx.seed, "same_block", [red[i] for i in case[1]])
    return {"case": case, "page_text": M.render(page)[0]}


def run(ctx: F.Ctx):
    from mc.checks import c12_pipeline

    cases = _cases(ctx)
    day = H.rotate(_DAYS, ctx.seed)[0]
    H.freeze(c12_pipeline.DAY)
    c12_pipeline._index("K1")
    c12_pipeline._index("K4")
    c12_pipeline._index("HIST")
    try:
        rep = F.explore(ctx, cases, lambda c: _run_case(ctx, c), sample=lambda c: _sample(ctx, c),
                        day=day, twice_every=401)
    finally:
        c12_pipeline.drop_all()
    n_pipe = sum(1 for c in cases if c[0] == "pipe")
    meta = {
        "rule": (
            "part 1: single-item pages over 16 kind/priority forms x 4 identity forms x bodies "
            "of 1..2 words over 14 words (10 prefix look-alikes/plain + own tag, link, k::v, "
            "inline property) x tails (single, continuation, bullets, look-alike bullets, bullet "
            "property), and all ordered pairs of the 24-item reduced alphabet in one block: "
            "compile -> Note.to_string() -> '# rt' header + emitted items -> compile -> compare "
            "kind, ZID, body, own tags/links/properties, dates iff ZID, priority unless "
            "done/cancelled. part 2: see pipeline cases (real db create, swog.execute, "
            "refresh_zoq_file), incl. an index that went through a real create / edit / next-day reindex "
            "history, whose emitted notes must compile back to the notes in the files. part 3: the text the real `note move` "
            "writes: 6 kind/priority forms x 6 tails x 3 source header blocks (plain values; values with blanks, dashes, a URL, "
            "backslashes, a date, a ZID; nested sections) x {no marker, x, ~} -- the destination stays a valid page and the "
            "moved note compiles to the same kind (or the requested one), ZID, dates, priority, links, at least its former tags and "
            "properties, and its former body once the inserted words are removed. Every case is "
            "distinct and exercises the round trip."
        ),
        "bounds": {"cases": len(cases), "pipeline_cases": n_pipe, "quick_second_words": "3 of 14" if ctx.quick else "all 14"},
        "assumptions": ["first compilation is trusted only as the reference for the second (C01 judges it against the written page)"],
        "exhaustive": True,
    }
    return rep, meta


def replay(case, ctx: F.Ctx) -> F.Outcome:
    from mc.checks import c12_pipeline

    H.freeze(H.rotate(_DAYS, ctx.seed)[0])
    try:
        return _run_case(ctx, list(case))
    finally:
        c12_pipeline.drop_all()
