"""C02 — Notes inherit metadata from the page title and enclosing sections only.

All legal header sequences up to a bound x every subset of {title, headers}
decorated with scope-unique markers; each page compiled by the real compiler
and every note's tags / links / properties / date compared with the scope-stack
model.
"""

from __future__ import annotations

import datetime as dt
import itertools as it

from mc.core import framework as F
from mc.core import harness as H
from mc.core import zo
from mc.models import zo_model as M

ID = "C02"
LEVEL = "model_checking"
FIELDS = ("areas", "contexts", "people", "projects", "links", "props", "create", "section", "zid", "kind")
_DAYS = [dt.date(2024, 5, 15), dt.date(2025, 3, 1), dt.date(2026, 9, 26)]
_NAME_POOLS = [("a", "l", "k", "v"), ("tg", "pg", "key", "val"), ("Zed", "Doc", "K9", "x_y")]


def skeletons(max_headers: int):
    out = [()]
    for n in range(1, max_headers + 1):
        for seq in it.product((1, 2, 3, 4), repeat=n):
            if M.legal_sequence(seq):
                out.append(seq)
    return out


def _deco(seed, i, rot, heavy):
    tn, ln, kn, vn = H.rotate(_NAME_POOLS, seed)[0]
    sym = "#@%+"[(i + rot) % 4]
    ws = [
        ("tag", sym, f"{tn}{i}"),
        ("link", f"{ln}{i}"),
        ("prop", kn, f"{vn}{i}"),
        ("date", "2023-01-%02d" % (10 + i)),
    ]
    if heavy:
        ws += [
            ("tag", "#@%+"[(i + rot + 1) % 4], f"{tn}{i}b"),
            ("tag", "#@%+"[(i + rot + 2) % 4], f"{tn}{i}c"),
            ("tag", "#@%+"[(i + rot + 3) % 4], f"{tn}{i}d"),
            ("glink", f"g{i}"),
            ("llink", f"loc{i}"),
            ("rlink", f"r{i}"),
            ("zlink", f"2401{10 + i}#Z{i}"),
            ("url", f"https://ex{i}.org/p{i}"),
            ("prop", f"u{i}", f"w{i}"),
            ("iprop", f"i{i}", ["x", f"y{i}"]),
            ("ipropns", f"n{i}", ["p", f"q{i}"]),  # [n0::p q0]: no space after the '::'
            ("ipropns", f"m{i}", [f"one{i}"]),
            ("tag", "#", "123"), ("tag", "%", "456"), ("tag", "@", "7"), ("tag", "+", "1000"),
            ("link", f"20{20 + i}"),  # a page whose name is made of digits is still a page
            # dates that are the value of a property / the target of a link, AFTER the header's own date
            ("prop", f"d{i}", "2019-09-%02d" % (i + 1)), ("link", "2018-08-%02d" % (i + 1)),
            ("emb", "2017-07-%02d" % (i + 1)), ("tag", "#", "2016-06-%02d" % (i + 1)),
            # a one-letter target; `[^X]` (a ticked local checklist link) is the only link zorg ignores
            [("rlink", "X"), ("link", "X"), ("glink", "X"), ("link", "x")][i % 4],
        ]
    return ws


def build_page(seed, levels, mask, rot, heavy):
    tn, ln, kn, vn = H.rotate(_NAME_POOLS, seed)[0]
    n = len(levels)
    title = [M.W("Title")]
    if mask & 1:
        title += _deco(seed, 0, rot, heavy)
    # the later header line is always decorated: its property must be
    # inherited, its tag / link / date must not
    header_lines = [[M.W("more"), ("prop", "hk", "hv"), ("tag", "#", "hltag"),
                     ("link", "hllink"), ("date", "2021-07-07")]]
    slot = [0]

    def note_block():
        j = slot[0]
        slot[0] += 1
        blk = []
        if j % 2 == 0:
            blk.append(M.AComment([M.W("c"), ("tag", "+", f"ctag{j}"), ("link", f"clink{j}"),
                                   ("prop", "ck", f"cv{j}"), ("date", "2022-02-02")]))
            if j % 4 == 2:
                # the first body word is an inline property
                blk.append(M.AItem(kind="-", words=[("iprop", f"lead{j}", ["first", "word"]), M.W(f"plain{j}")]))
            else:
                blk.append(M.AItem(kind="-", words=[M.W(f"plain{j}")]))
        else:
            item = M.AItem(kind="o" if j % 4 == 1 else "-",
                           words=[M.W(f"own{j}"), ("tag", "+", f"otag{j}"),
                                  ("link", f"olink{j}"), ("prop", kn, f"own{j}"),
                                  # the very tag and link the NEXT section header carries (if decorated)
                                  ("tag", "#@%+"[(j + 1 + rot) % 4], f"{tn}{j + 1}"), ("link", f"{ln}{j + 1}")])
            if j % 4 == 1:
                item.words.append(("link", "X"))  # a one-letter page of its own
            if j % 4 == 3:
                # bullet properties, and the item's very last word is a quoted word
                item.cont = [("  * ", [("bprop", f"bp{j}", ["done", "she", "said"])]),
                             ("  * ", [("bprop", kn, [f"bullet{j}", '"ok"'])])]
            if j % 4 == 1:
                item.ident = ("long", "2020-12-%02d" % (1 + j))
            else:
                item.words.append(("date", "2019-09-09"))  # decoy: not the first word
            blk.append(item)
        return [blk]

    top = note_block()
    secs = []
    for i, lv in enumerate(levels, start=1):
        ws = [M.W(f"S{i}")]
        if mask & (1 << i):
            ws += _deco(seed, i, rot, heavy)
        secs.append(M.ASection(lv, ws, note_block(), gap_after_header=i % 2))
    return M.APage(title=title, header_lines=header_lines, top_blocks=top, sections=secs)


def _run_case(ctx, case) -> F.Outcome:
    levels, mask, rot, heavy = case
    day = H.rotate(_DAYS, ctx.seed)[0]
    page = build_page(ctx.seed, levels, mask, rot, heavy)
    text, _ = M.render(page)
    trace: list = []
    want = M.expected_notes(page, day, trace)
    got = zo.compile_text(text)
    out = F.Outcome()
    out.transitions = len(trace)
    out.states = tuple(H.digest(k) for k, _ in trace)
    out.obs = H.digest([got["exc"], got["nsyntax"], [[n.get(f) for f in FIELDS] for n in got["notes"]]])
    problem = None
    if got["exc"]:
        problem = {"what": "compiler-raised", "exc": got["exc"]}
        sig = "exception:" + got.get("exc_type", "?") + "@" + got.get("exc_frame", "?")
    elif got["nsyntax"] or got["has_errors"]:
        problem = {"what": "valid-page-rejected", "nsyntax": got["nsyntax"]}
        sig = "valid-page-rejected"
    else:
        d = M.diff_notes(want, got["notes"], FIELDS)
        if d:
            problem = d
            sig = "scope:" + d["what"]
    # non-trivial: some note has an enclosing decorated scope and some decorated
    # scope exists that must not leak into it
    n = len(levels)
    decorated = [i for i in range(n + 1) if mask & (1 << i)]
    if decorated and n >= 1 and len(decorated) <= n:
        out.nontrivial = H.digest(case)
    elif decorated and n >= 2:
        out.nontrivial = H.digest(case)
    if problem:
        out.ok = False
        out.sig = sig
        out.detail = {"page": text, "day": day.isoformat(), "problem": problem,
                      "expected_note": want[problem["note"]] if "note" in problem else None,
                      "observed_note": got["notes"][problem["note"]] if "note" in problem and problem["note"] < len(got["notes"]) else None}
    return out


def _cases(ctx):
    maxh = 5 if ctx.quick else 6
    cases = []
    for sk in skeletons(maxh):
        for mask in range(1 << (len(sk) + 1)):
            # quick: 5-header skeletons get every subset of at most two
            # decorated scopes (a leak needs one source and one sink)
            if ctx.quick and len(sk) == 5 and bin(mask).count("1") > 2:
                continue
            cases.append([list(sk), mask, 0, False])
    # heavy decoration: every tag kind at once, global link, unique key,
    # inline property with spaces, all-digit tag
    for sk in skeletons(3):
        for mask in range(1 << (len(sk) + 1)):
            cases.append([list(sk), mask, 1, True])
    if not ctx.quick:
        for rot in (1, 2, 3):
            for sk in skeletons(4):
                for mask in range(1 << (len(sk) + 1)):
                    cases.append([list(sk), mask, rot, False])
    return cases


def _sample(ctx, case):
    page = build_page(ctx.seed, *case)
    return {"levels": case[0], "decorated_mask": case[1], "page_text": M.render(page)[0]}


def run(ctx: F.Ctx):
    cases = _cases(ctx)
    day = H.rotate(_DAYS, ctx.seed)[0]
    rep = F.explore(ctx, cases, lambda c: _run_case(ctx, c), sample=lambda c: _sample(ctx, c),
                    day=day, twice_every=301)
    maxh = 5 if ctx.quick else 6
    meta = {
        "rule": (
            "every legal header sequence (first H1|H2, next level <= previous+1) with 0.."
            f"{maxh} headers; a note slot in the top block and after every header; every subset "
            "of {title, headers} decorated with scope-unique tag (kind rotating with the scope "
            "index), link, shared-key property and date; later header line and in-block "
            "comments always decorated (must never contribute tags/links/date); notes alternate "
            "between bare and carrying own tag/link/same-key property/leading long date or a "
            "decoy date. Heavy decoration (all four tag kinds, [#g], unique key, inline property "
            "with spaces, all-digit tag) for all skeletons with <= 3 headers; thorough adds the "
            "three other tag-kind rotations for <= 4 headers; quick restricts 5-header skeletons "
            "to subsets of at most two decorated scopes. Non-trivial = at least one "
            "decorated scope and at least one scope that must not receive it."
        ),
        "bounds": {"max_headers": maxh, "skeletons": len(skeletons(maxh)), "pages": len(cases),
                   "frozen_day": day.isoformat()},
        "assumptions": ["one decoration pattern per scope (placement enumerated, spelling fixed per seed)"],
        "exhaustive": True,
    }
    return rep, meta


def replay(case, ctx: F.Ctx) -> F.Outcome:
    H.freeze(H.rotate(_DAYS, ctx.seed)[0])
    return _run_case(ctx, list(case))
