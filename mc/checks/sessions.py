"""Scripted `zorg edit` sessions (one long-lived process, see mc/core/editsession.py), shared by
C03, C05, C06 and C11: each check runs every scenario and applies the oracles its property asks for.

Scenarios are small and enumerated exhaustively over {scenario} x {clock: stays / passes midnight
in session k}; every one makes zorg reindex at least twice inside ONE process.
"""

from __future__ import annotations

import datetime as dt
from pathlib import Path

from mc.core import dirstate as D
from mc.core import editsession as ES
from mc.core import framework as F
from mc.core import harness as H
from mc.core import zdir as Z
from mc.models import index_reader as IR

DAY = dt.date(2024, 5, 15)
H1R = "#" * 32

BASE = {
    "a.zo": "# A page #pa\n# hk::hv\n\n- 240101#A1 first note w0 [[b]]\no P1 240101#A2 todo on a w0\n- 240102#A3 owner of gid ID::gid\n",
    "b.zo": "# B page\n\n- 240103#B1 note on b RID::rid1\n- 240104#B2 second on b w0\n\n" + H1R + " Sec @ctx\n\n- 240105#B3 in a section w0\n",
    "refs.zo": "# Refs\n\n- 240106#R1 links to the owner of gid [#gid]\n- 240106#R2 links to rid [@rid1]\n- 240106#R3 links to a note of b [240104#B2]\n- 240106#R4 links nowhere\n",
    "zoq/qa.zoq": "# S note W [[a]] O alpha G none\n",
    "zoq/qb.zoq": "# S note W [[b]] f=refs O alpha G none\n",
    "zoq/qn.zoq": "# S note W ![[a]] f=refs O alpha G none\n",
}

# name -> (paths given to `zorg edit`, sessions)
SCENARIOS = {
    # a new item, and in the next session a line inserted above it
    "new-note-then-a-line-above-it": (["a.zo"], [
        {"ops": [["append", "a.zo", "- alpha without a zid\n"]], "keep": True},
        {"ops": [["insert_before", "a.zo", "alpha without", "- beta inserted above alpha"]], "keep": False}]),
    # ... and a line deleted above it
    "new-note-then-a-line-removed-above-it": (["a.zo"], [
        {"ops": [["append", "a.zo", "- alpha without a zid\n"]], "keep": True},
        {"ops": [["replace", "a.zo", "o P1 240101#A2 todo on a w0\n", ""]], "keep": False}]),
    # one note edited in every session (three sessions)
    "an-edit-in-each-of-three-sessions": (["a.zo", "b.zo"], [
        {"ops": [["replace", "a.zo", "first note w0", "first note w1"]], "keep": True},
        {"ops": [["replace", "a.zo", "todo on a w0", "todo on a w1"], ["replace", "b.zo", "second on b w0", "second on b w1"]],
         "keep": True},
        {"ops": [["replace", "b.zo", "in a section w0", "in a section w1"]], "keep": False}]),
    # an ID moves from a note of a.zo to a note of b.zo while the saved-query pages are open
    "an-id-moves-to-another-page": (["zoq/qa.zoq", "zoq/qb.zoq", "zoq/qn.zoq", "a.zo", "b.zo"], [
        {"ops": [["replace", "a.zo", "owner of gid ID::gid", "no longer the owner"],
                 ["replace", "b.zo", "note on b RID::rid1", "note on b RID::rid1 ID::gid"]], "keep": True},
        {"ops": [], "keep": False}]),
    # a note that a saved-query page lists is edited while that page is open
    "a-listed-note-is-edited": (["zoq/qa.zoq", "zoq/qb.zoq", "refs.zo"], [
        {"ops": [["replace", "refs.zo", "links to the owner of gid", "links to the owner of gid, edited"],
                 ["replace", "refs.zo", "links to rid", "links to rid, edited"]], "keep": True},
        {"ops": [], "keep": False}]),
    # a RID and a note move, then one of them moves back
    "a-note-moves-to-another-page-and-back": (["zoq/qa.zoq", "zoq/qb.zoq", "zoq/qn.zoq", "a.zo", "b.zo"], [
        {"ops": [["replace", "b.zo", "- 240104#B2 second on b w0\n", ""], ["append", "a.zo", "- 240104#B2 second on b w0\n"]],
         "keep": True},
        {"ops": [["replace", "a.zo", "- 240104#B2 second on b w0\n", ""],
                 ["insert_before", "b.zo", "################################", "- 240104#B2 second on b w0\n"]], "keep": True},
        {"ops": [], "keep": False}]),
    # a page disappears and another one appears, then the new page is edited
    "a-page-goes-and-a-page-comes": (["a.zo"], [
        {"ops": [["delete", "b.zo"], ["write", "c.zo", "# C page +pc\n\n- brand new on c\n- 240107#C2 with a zid [[a]]\n"]],
         "keep": True},
        {"ops": [["replace", "c.zo", "with a zid", "with a zid, edited"], ["append", "a.zo", "o gamma added later\n"]], "keep": False}]),
}


def cases(ctx) -> list:
    out = []
    for name, (_, sessions) in SCENARIOS.items():
        out.append(["session", name, None])
        # the editor stays open past midnight in session k
        for k in range(len(sessions)):
            out.append(["session", name, k])
    return out


def sample(case) -> dict:
    paths, sessions = SCENARIOS[case[1]]
    return {"zorg_edit": paths, "editor_sessions_in_one_process": sessions, "midnight_passes_in_session": case[2]}


def _fresh_refresh(zd: Path, rel: str, day: dt.date):
    """What a FRESH process shows for the saved-query page `rel` of the directory as it is."""
    cp = Z.copy_zdir(zd, tag="sesq")
    try:
        r = ES.run(cp, [rel], [{"keep": False}], day)
        if r.status != "ok" or r.value["exit"] != 0:
            raise H.HarnessError(f"fresh refresh of {rel} failed: {r.status} {r.exc} {r.err[-300:]}")
        return r.value["opened"][0].get(rel)
    finally:
        Z.drop(cp)


def _no_stamp(text):
    """A refreshed saved-query page without its '# SAVED QUERY GENERATED ON <date> AT <time>.' line."""
    if text is None:
        return None
    return "\n".join(l for l in text.split("\n") if not l.startswith("# SAVED QUERY GENERATED ON "))


def run_case(ctx, case, oracles: set) -> F.Outcome:
    """oracles: subset of {"zids", "index-vs-files", "rebuild", "queries"}."""
    _, name, midnight = case
    paths, sessions = SCENARIOS[name]
    sessions = [dict(s) for s in sessions]
    if midnight is not None:
        sessions[midnight]["advance_days"] = 1
    out = F.Outcome()
    out.nontrivial = H.digest(case)
    H.freeze(DAY)
    zd = Z.make_zdir(BASE, "ses")
    problem = None
    try:
        r = Z.db_create(zd, DAY)
        if not Z.cli_ok(r) or Z.snapshot(zd, with_meta=False) != BASE:
            raise H.HarnessError("edit-session setup: db create failed or rewrote files " + r.err[-300:])
        res = ES.run(zd, paths, sessions, DAY)
        out.transitions = len(sessions)
        if res.status != "ok" or res.value["exit"] != 0:
            problem = ("command-failed", {"status": res.status, "value": res.value if res.status == "ok" else None,
                                          "stderr": res.err[-1200:]})
        elif res.value["sessions_run"] != len(sessions):
            problem = ("editor-not-reopened-as-often-as-asked", {"sessions_run": res.value["sessions_run"], "asked": len(sessions)})
        else:
            last_day = dt.date.fromisoformat(res.value["last_day"])
            H.freeze(last_day)
            files = Z.snapshot(zd, with_meta=False)
            compiled = D.compiled_pages(zd)
            index = IR.read_index(zd)
            if "zids" in oracles and problem is None:
                for rel, pg in compiled.items():
                    for n in pg["notes"]:
                        if n["zid"] is None:
                            problem = ("note-without-zid-after-the-last-reindex", {"page": rel, "line": n["line"], "body": n["body"]})
                            break
                    if problem:
                        break
                if problem is None:
                    zs = [n["zid"] for pg in compiled.values() for n in pg["notes"]]
                    dup = sorted({z for z in zs if zs.count(z) > 1})
                    if dup:
                        problem = ("same-zid-on-two-notes", {"zids": dup})
            if "index-vs-files" in oracles and problem is None:
                d = D.diff_index_vs_files(index, compiled)
                if d:
                    problem = ("index-differs-from-files:" + d["what"], d)
            if "rebuild" in oracles and problem is None:
                fresh = Z.copy_zdir(zd, with_index=False, tag="sesf")
                try:
                    rc = Z.db_create(fresh, last_day)
                    if not Z.cli_ok(rc):
                        problem = ("fresh-create-failed-on-final-files", {"stderr": rc.err[-600:]})
                    elif Z.snapshot(fresh, with_meta=False) != files:
                        problem = ("files-not-settled-after-the-last-reindex", {"after_sessions": files,
                                                                                "after_fresh_create": Z.snapshot(fresh, with_meta=False)})
                    elif IR.read_index(fresh)["pages"] != index["pages"]:
                        from mc.checks.c06 import _first_page_diff

                        what = _first_page_diff(index["pages"], IR.read_index(fresh)["pages"])
                        problem = ("index-differs-from-fresh-rebuild:" + what[0], what[1])
                finally:
                    Z.drop(fresh)
            if "queries" in oracles and problem is None:
                last_open = res.value["opened"][-1]
                if not sessions[-1].get("ops"):
                    # nothing was edited in the last session: what the saved-query pages showed when the
                    # editor opened for the last time is the answer to the final index
                    for rel in [p for p in paths if p.endswith(".zoq")]:
                        want = _fresh_refresh(zd, rel, last_day)
                        if _no_stamp(last_open.get(rel)) != _no_stamp(want):
                            problem = ("saved-query-page-refreshed-in-the-session-differs-from-a-fresh-process",
                                       {"page": rel, "in_session": last_open.get(rel), "fresh_process": want})
                            break
        out.obs = H.digest([Z.snapshot(zd, with_meta=False), res.value if res.status == "ok" else res.status])
        if problem:
            out.ok = False
            out.sig = "edit-session:" + problem[0]
            out.detail = {"scenario": name, "zorg_edit": paths, "sessions": sessions, "initial_files": BASE,
                          "files_after": Z.snapshot(zd, with_meta=False), "problem": problem[1]}
    finally:
        Z.drop(zd)
        H.freeze(DAY)
    return out
