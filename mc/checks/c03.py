"""C03 — A WHERE filter returns exactly the indexed notes that satisfy it.

Filter programs (every single atom, every ordered pair under AND and OR, every
expression shape up to a bound over a core alphabet) are run through the real
query compiler and the real SQL repository against indexes built by the real
`db create`; the set of ZIDs returned is compared with an independent
set-algebra evaluation of the same abstract filter over the raw rows of the
index (read back with sqlite3).
"""

from __future__ import annotations

import datetime as dt
import itertools as it
import re

from mc.core import framework as F
from mc.core import harness as H
from mc.core import idx as IX
from mc.core import qwf
from mc.models import corpora as C
from mc.models import query_model as Q

ID = "C03"
LEVEL = "exploration"
DAY = dt.date(2024, 5, 15)

_INDEXES: dict[str, IX.Index] = {}


def atoms_full():
    A = []
    for chars in ("-", "o", "x", "~", "<", ">", "-~", "<>"):
        A.append(["kind", chars])
    for n, m in ((0, None), (1, None), (3, None), (0, 2), (1, 4), (2, 9), (5, 9), (9, None)):
        A.append(["prio", n, m])
    for sym, name in (("#", "t1"), ("@", "c1"), ("%", "p1"), ("+", "j1"), ("#", "t2"), ("@", "c2"), ("+", "nosuch")):
        A.append(["tag", sym, name, False])
        A.append(["tag", sym, name, True])
    for head in ("create", "modify"):
        A.append([head, ["short", "240101"], None])
        A.append([head, ["short", "240101"], ["short", "240131"]])
        A.append([head, ["short", "240115"], ["short", "240201"]])
        A.append([head, ["short", "240201"], ["short", "240101"]])  # end < start
        # two-digit years always mean 20YY, also 69..99
        A.append([head, ["short", "240101"], ["short", "991231"]])
        A.append([head, ["short", "690101"], ["short", "700101"]])
        A.append([head, ["rel", 0, "d", False], None])
        A.append([head, ["rel", 1, "d", True], ["rel", 0, "d", False]])
        A.append([head, ["rel", 1, "m", True], None])
        A.append([head, ["rel", 1, "y", True], ["rel", 1, "m", True]])
    for neg in (False, True):
        for key in ("due", "n", "s", "ID", "nokey"):
            A.append(["prop", key, "exists", None, neg])
        for op in ("=", "<", "<=", ">", ">="):
            A.append(["prop", "due", op, "2024-06-01", neg])
            A.append(["prop", "n", op, "10", neg])
            A.append(["prop", "s", op, "abc", neg])
        A.append(["prop", "n", "=", "007", neg])
        A.append(["prop", "n", ">", "0", neg])
        A.append(["prop", "s", "=", "Abc", neg])
    for text, quote in (("foo", "'"), ("Foo_bar", "'"), ("foo_bar", '"'), ("o%b", "'"), ("100%", '"'),
                        ("a\\b", "'"), ("mixed case", "'"), ("MIXED", '"'), ("second line", "'"),
                        ("nosuchtext", "'"), ("x_a", "'")):
        for cflag in (False, True):
            for neg in (False, True):
                A.append(["desc", text, quote, cflag, neg])
    for glob in ("ab", "a_b", "p*", "*s", "*p*", "dir/ab", "a*", "*_b", "nosuch", "ffa", "f*", "fa", "*fa"):
        for neg in (False, True):
            A.append(["file", glob, neg])
    for name in ("b", "cee", "ab", "dir/ab", "bb", "nosuch"):
        for neg in (False, True):
            A.append(["link", name, neg])
    return A


def atoms_core(n):
    core = [
        ["kind", "o"],
        ["tag", "#", "t1", False],
        ["prio", 1, 4],
        ["link", "b", True],
        ["prop", "n", ">=", "10", True],
        ["desc", "foo", "'", False, False],
        ["create", ["short", "240101"], ["short", "240131"]],
        ["file", "a*", False],
        ["kind", "-~"],
        ["tag", "@", "c1", True],
        ["prop", "due", "<", "2024-06-01", False],
        ["desc", "Foo_bar", "'", True, True],
        ["modify", ["short", "240115"], None],
        ["link", "ab", False],
    ]
    return core[:n]


def _get_index(name: str) -> IX.Index:
    ix = _INDEXES.get(name)
    if ix is None:
        if name == "K1":
            files = C.K1
        elif name == "SINGLE":
            files = C.K_SINGLE
        elif name == "EMPTY":
            files = C.K_EMPTY
        elif name == "BIG":
            files = C.big_corpus()
        elif name == "LONGPAGE":
            files = C.long_page_corpus()
        elif name.startswith("POOL"):
            files = C.pool_subset(int(name[4:]))
        else:
            raise H.HarnessError(name)
        ix = _INDEXES[name] = IX.Index(files, DAY, tag="c03")
    return ix


_ZID_RE = re.compile(r"\b\d{6}#[0-9A-Za-z]{2,3}\b")


def _cli_zids(ix: IX.Index, where_text: str):
    r = H.run_cli(ix.zdir, "query", f"S note W {where_text} G none", day=DAY)
    if not (r.status == "ok" and r.value == 0):
        return None, f"cli failed: {r.status} {r.value} {r.err[-300:]}"
    zids = []
    for line in r.out.split("\n"):
        if line[:2] in ("- ", "o ", "x ", "~ ", "< ", "> "):
            for w in line.split(" ")[1:4]:
                if _ZID_RE.fullmatch(w):
                    zids.append(w)
                    break
    return zids, None


def _run_case(ctx, case) -> F.Outcome:
    if case[0] == "session":
        # link filters answered twice in ONE long-lived `zorg edit` process, the index changing in between
        from mc.checks import sessions

        try:
            return sessions.run_case(ctx, case, {"queries"})
        finally:
            H.freeze(DAY)
    name, where, via_cli = case
    ix = _get_index(name)
    H.freeze(DAY)
    out = F.Outcome()
    text = "W " + Q.render_or(where)
    ok, why = qwf.wellformed(text)
    if not ok:
        out.ok = False
        out.sig = "generated-filter-rejected-by-grammar"
        out.detail = {"query": text, "why": why}
        return out
    U = ix.universe
    want = sorted(n["zid"] for n in U.notes if Q.holds_or(where, n, U, DAY))
    if via_cli:
        got, err = _cli_zids(ix, Q.render_or(where))
    else:
        got, err = ix.where_zids(text)
    out.obs = H.digest(got if err is None else err)
    if 0 < len(want) < len(U.notes):
        out.nontrivial = H.digest([name, text])
    if err is not None:
        out.ok = False
        out.sig = "query-raised:" + err.split(":")[0]
        out.detail = {"index": name, "query": text, "error": err}
        return out
    problem = None
    if len(set(got)) != len(got):
        problem = "duplicate-notes-returned"
    elif sorted(got) != want:
        problem = "result-set-differs"
    if problem:
        extra = sorted(set(got) - set(want))
        missing = sorted(set(want) - set(got))
        out.ok = False
        out.sig = problem + ":" + _blame(where, ix, DAY)
        out.detail = {"index": name, "query": text, "via": "cli" if via_cli else "repo",
                      "expected": want, "observed": sorted(got),
                      "wrongly_returned": extra, "wrongly_missing": missing}
    return out


def _leaves(or_):
    for a in or_:
        for atom in a:
            if atom[0] == "sub":
                yield from _leaves(atom[1])
            else:
                yield atom


def _blame(where, ix, day) -> str:
    """Signature: the kinds of the leaf atoms that, run alone, already disagree
    with the model (empty if only the combination disagrees)."""
    bad = set()
    U = ix.universe
    for atom in _leaves(where):
        w1 = [[atom]]
        want = sorted(n["zid"] for n in U.notes if Q.holds_or(w1, n, U, day))
        got, err = ix.where_zids("W " + Q.render_or(w1))
        if err is not None or sorted(got or []) != want:
            tag = atom[0]
            if atom[0] in ("desc", "file", "link", "tag", "prop") and atom[-1]:
                tag = "!" + tag
            bad.add(tag)
    return "atoms[" + ",".join(sorted(bad)) + "]" if bad else "combination-only"


def _cases(ctx):
    A = atoms_full()
    cases = []
    for name in ("K1", "SINGLE", "EMPTY"):
        for a in A:
            cases.append([name, [[a]], False])
    # every ordered pair under AND and OR on the discriminating corpus
    # (quick: over every third atom, offset by the seed; thorough: all atoms)
    P = A if not ctx.quick else A[(ctx.seed % 3)::3]
    for a, b in it.product(P, repeat=2):
        cases.append(["K1", [[a, b]], False])
        cases.append(["K1", [[a], [b]], False])
    if ctx.quick:
        plan = [(2, 2, 14), (3, 1, 6), (3, 2, 3)]
    else:
        plan = [(2, 2, 14), (3, 2, 8), (4, 1, 5)]
    for nleaves, depth, natoms in plan:
        core = atoms_core(natoms)
        for shape in Q.or_shapes(nleaves, depth):
            if nleaves == 2 and depth == 2 and all(x is None for a in shape for x in a):
                continue  # plain pairs are covered above
            for atoms in it.product(core, repeat=nleaves):
                cases.append(["K1", Q.fill(shape, list(atoms)), False])
    # a large index: more matching notes than any list-size limit of a query layer
    for a in (["desc", "Widget", '"', False, False], ["desc", "Widget", '"', False, True],
              ["desc", "widget", "'", True, True], ["desc", "gadget", "'", True, True],
              ["desc", "widget", "'", False, True], ["kind", "o"], ["link", "wb", True], ["file", "w*", True]):
        cases.append(["BIG", [[a]], False])
    cases.append(["BIG", [[["desc", "Widget", '"', False, True], ["kind", "-"]]], False])
    # a page with more than 1000 notes as the target of a link filter
    for a in (["link", "long", False], ["link", "long", True], ["link", "other", False], ["kind", "o"]):
        cases.append(["LONGPAGE", [[a]], False])
    cases.append(["LONGPAGE", [[["link", "long", False], ["kind", "-"]]], False])
    if not ctx.quick:
        for mask in range(64):
            for a in A:
                cases.append([f"POOL{mask}", [[a]], False])
        for a in A:
            cases.append(["K1", [[a]], True])
    else:
        for a in A[::9]:
            cases.append(["K1", [[a]], True])
        for mask in (0b000001, 0b101010, 0b111111, 0b010101):
            for a in A:
                cases.append([f"POOL{mask}", [[a]], False])
    from mc.checks import sessions

    cases += [c for c in sessions.cases(ctx) if any(p.endswith(".zoq") for p in sessions.SCENARIOS[c[1]][0])]
    return cases


def _sample(case):
    if case[0] == "session":
        from mc.checks import sessions

        return sessions.sample(case)
    return {"index": case[0], "query": "W " + Q.render_or(case[1]), "via_cli": case[2]}


def run(ctx: F.Ctx):
    H.freeze(DAY)
    cases = _cases(ctx)
    # build every index once, in the parent; workers inherit them and open
    # their own sessions
    for name in sorted({c[0] for c in cases if c[0] != "session"}):
        _get_index(name)
    try:
        rep = F.explore(ctx, cases, lambda c: _run_case(ctx, c), sample=_sample, day=DAY,
                        twice_every=1009)
    finally:
        for ix in _INDEXES.values():
            ix.drop()
        _INDEXES.clear()
    meta = {
        "rule": (
            f"{len(atoms_full())} atoms (8 kind runs, 8 priority ranges, 7 tags +/- !, ^/$ x 8 date "
            "forms incl. end<start and relative d/m/y, existence and 5 comparison operators on a "
            "date-valued, an integer-valued and a string-valued key +/- !, 11 quoted texts incl. "
            "%, _, backslash, mixed case, multi-line x c x !, 9 file globs +/- !, 6 link names "
            "+/- !): every atom alone on 3 indexes (discriminating 28-note corpus over 8 pages, "
            "single-note, empty) and on sub-indexes of a six-note pool (quick: 4 subsets; thorough: "
            "all 64); every ordered pair under AND and under OR; every expression shape with <= 3 "
            "leaves / paren depth <= 2 over core alphabets (sizes in bounds). Oracle: set-algebra "
            "evaluation over the raw rows read with sqlite3. Non-trivial = expected result neither "
            "empty nor the whole index."
        ),
        "bounds": {"cases": len(cases), "atoms": len(atoms_full()), "frozen_day": DAY.isoformat(),
                   "shape_plan(leaves,depth,core_atoms)": [(2, 2, 14), (3, 1, 6), (3, 2, 3)] if ctx.quick else [(2, 2, 14), (3, 2, 8), (4, 1, 5)]},
        "assumptions": [
            "integer comparisons only on a key whose stored values are all integers, date comparisons only on a key whose stored values are all long dates",
            "lower-case page names (the statement does not fix case sensitivity of f=)",
            "index contents: designed corpora + sub-indexes of a six-note pool, not all indexes",
        ],
        "exhaustive": True,
    }
    return rep, meta


def replay(case, ctx: F.Ctx) -> F.Outcome:
    try:
        return _run_case(ctx, list(case))
    finally:
        for ix in _INDEXES.values():
            ix.drop()
        _INDEXES.clear()
