"""C05 — After `db create` index and files agree; files change only to gain ZIDs.

Explicit-state exploration of short create/reindex histories (with and without
the calendar day advancing) over a family of initial directories that covers
every ZID-less item form; every transition runs the real CLI command in a fresh
process on a real directory; four invariants are evaluated in every state.
"""

from __future__ import annotations

import datetime as dt
import itertools as it
import json
import re

from mc.core import dirstate as D
from mc.core import framework as F
from mc.core import harness as H
from mc.core import zdir as Z
from mc.models import edit_model as EM
from mc.models import zid_model as ZM

ID = "C05"
LEVEL = "model_checking"
H2R = "=" * 24
_DAYS = [dt.date(2024, 5, 15), dt.date(2025, 2, 28), dt.date(2026, 12, 31)]

REDUCED = [
    ["- plain one"],
    ["o todo two"],
    ["o P1 prio todo"],
    ["x 2024-02-03 done dated"],
    ["- 2024-02-04 dated note"],
    ["~ cancelled multi", "  continued here"],
    ["< blocked with bullets", "  * b1", "  * k:: v"],
    ["> P9 parent"],
    ["- 240105#Z5 has zid"],
    ["o P2 240106 240105#Z6 stamped has zid"],
    ["-  two spaces"],
    ["o P3  2024-02-05 two spaces dated"],
    ["- 240229#Z7 zid of a leap day"],
    ["- one name under every sigil and as a link #dup @dup %dup +dup [[dup]] dup::dup"],
    ["-  240108#Z9 two blanks before a written zid"],
    ["o P2  240401 240108#ZA two blanks, then stamp and zid"],
    ["- 240203#00 carries the first zid of a date other items are dated with"],
    ["x 2024-02-29 done on a leap day"],
]
LAYOUTS = ["same_block", "two_blocks", "dated_h2", "subdir", "two_pages", "same_name_pages", "deep_sections", "h2_first", "crlf", "odd_separators", "bare_cr"]


def variant_items():
    out = []
    for kind in "-ox~<>":
        prios = [None] if kind == "-" else [None, "P1"]
        for prio in prios:
            for ident in (None, "2024-02-03"):
                for sep in (" ", "  "):
                    for tail in ("single", "multi", "bullets"):
                        pre = kind + (f" {prio}" if prio else "")
                        first = pre + sep + (ident + " " if ident else "") + "body words here"
                        lines = [first]
                        if tail == "multi":
                            lines.append("  second line")
                        elif tail == "bullets":
                            lines += ["  * bullet one", "  * due:: 2024-06-01"]
                        out.append(lines)
    # bodies whose first word merely looks like part of the prefix
    for kind in "-ox~<>":
        prios = [None] if kind == "-" else [None, "P1"]
        for prio in prios:
            for ident in (None, "2024-02-03"):
                for lead in ("P1", "P15", "o", "x", "2024-19-39", "2024-02-30", "1999-12-31", "3024-01-01"):
                    pre = kind + (f" {prio}" if prio else "")
                    if lead == "P1" and kind != "-" and prio is None:
                        continue  # that IS the priority of a todo, covered above
                    if lead[4:5] == "-" and ident:
                        continue  # one date-shaped first word is enough
                    out.append([pre + " " + (ident + " " if ident else "") + lead + " lookalike first word"])
    # two blanks between the kind and a Pn word: by the grammar that word is body, not priority
    for kind in "ox<":
        out.append([kind + "  P1 two blanks before a priority-shaped word"])
        out.append([kind + "  P1 2024-02-03 and a date after it"])
    # nothing after the prefix on the first line: the whole body is on continuation lines
    for pre in ("-", "o", "o P1", "x"):
        out.append([pre + " ", "  body starts on the second line"])
        out.append([pre + " 2024-02-03", "  * only a date on the first line"])
    # create dates whose ISO week-based year is not their calendar year
    for d in ("2024-12-30", "2021-01-01", "2027-01-03"):
        out.append(["- " + d + " dated at a turn of the year"])
        out.append(["o P1 " + d + " dated at a turn of the year"])
    # a page saved as ISO-8859-1 (the lone surrogate stands for the raw byte 0xE9): the compiler
    # drops the byte and reports no error, so the page is error-free and its notes need ZIDs
    out.append(["- caf\udce9 au lait, no zid yet"])
    out.append(["o P1 2024-02-03 dated caf\udce9", "  second line \udce9"])
    # an item that consists of its create date and nothing else
    out.append(["- 2024-02-03"])
    out.append(["o P1 2024-02-03"])
    # a create date after 2099: the ZID can only carry two of its year digits
    out.append(["- 2150-03-04 dated in the next century"])
    return out


def build_files(case) -> dict[str, str]:
    kind = case[0]
    if kind == "variant":
        item = variant_items()[case[1]]
        text = "# page title #pt\n\n- 240101#Z1 anchor note with zid\n" + "\n".join(item) + "\n- 240102#Z2 trailing anchor\n"
        return {"a.zo": text}
    if kind == "variant-crlf":
        # the same page saved with Windows line endings
        return {"a.zo": build_files(["variant", case[1]])["a.zo"].replace("\n", "\r\n")}
    _, layout, i, j = case
    a, b = REDUCED[i], REDUCED[j]
    if i == j:  # the same written ZID twice would be an input error, not a finding
        b = [l.replace("#Z", "#Y").replace("240203#00", "240205#00") for l in b]
    A, B = "\n".join(a) + "\n", "\n".join(b) + "\n"
    if layout == "same_block":
        return {"a.zo": "# t\n\n" + A + B}
    if layout == "odd_separators":
        # U+2028 / U+2029 / U+0085 (pasted from a web page or a word processor) inside earlier
        # notes: none of them is a line break of a page
        return {"a.zo": "# t with \u2028 in the title\n\n- 240107#Z8 pasted \u2028 text \u2029 here\n  continued \u0085 line\n"
                + A + "- 240108#ZE more \u2028\u2028 of it\n" + B}
    if layout == "bare_cr":
        # a carriage return that is NOT followed by a line feed (a progress line pasted from a terminal)
        # is no line break of a page: the lines below it keep their numbers
        return {"a.zo": "# t\n\n- 240107#Z8 a progress line 50%\r100% pasted from a terminal\n  and\rmore\n" + A
                + "- 240108#ZE another\rone\n" + B}
    if layout == "crlf":
        # a page with Windows line endings is a valid page; only the first lines of the
        # formerly ZID-less items may change
        return {"a.zo": ("# t\n\n" + A + "\n" + B).replace("\n", "\r\n"), "b.zo": "# plain\n\n" + "- 240107#Z8 lf page\n"}
    if layout == "two_blocks":
        return {"a.zo": "# t\n\n" + A + "\n" + B}
    if layout == "dated_h2":
        return {"a.zo": "# t\n\n" + A + "\n" + f"{H2R} Sec 2024-02-29 #st\n\n" + B}
    if layout == "subdir":
        return {"sub/dir/a.zo": "# t\n\n" + A + B, "top.zo": "# top\n\n- 240103#Z3 top note\n"}
    if layout == "deep_sections":
        H1R_, H3R_, H4R_ = "#" * 32, "+" * 16, "-" * 8
        return {"a.zo": "# t #tt\n\n- 240109#Z9 top block note\n\n" + f"{H1R_} One +p1\n\n" + A + "\n"
                + f"{H2R} Two k::v\n\n- 240110#ZA under two\n\n{H3R_} Three 2024-03-03\n\n" + B + "\n"
                + f"{H4R_} Four @c4\n\n" + A.replace("#Z", "#X").replace("240203#00", "240204#00").replace("plain one", "plain again") + "- 240111#ZB last under four\n\n"
                + f"{H2R} Two again\n\n- 240112#ZC in the second h2\n"}
    if layout == "h2_first":
        H3R_ = "+" * 16
        return {"a.zo": "# t\n\n" + f"{H2R} Leading two #l2\n\n" + A + "\n" + f"{H3R_} Under it\n\n" + B
                + "\n" + f"{'#' * 32} Then an h1\n\n- 240113#ZD under the h1\n"}
    if layout == "same_name_pages":
        return {"work/a.zo": "# w\n\n" + A, "home/a.zo": "# h 2024-04-04\n\n" + B, "a.zo": "# top\n\n- 240103#Z3 top note\n"}
    if layout == "two_pages":
        return {"a.zo": "# t\n\n" + A, "b.zo": "# u 2024-04-04\n\n" + B}
    raise H.HarnessError(layout)


# pre-existing next_ids.json contents: the next suffix of every date used sits
# right before a carry (z -> next digit, zz -> 000) or a skip over excluded
# look-alike characters (H->J, h->k, o->r, P->R, R->T, x->z)
_PRE_POINTS = ["0z", "0h", "0o", "Hz", "zz", "0H", "0P", "0R", "0x", "9z", "Zz", "00h", "0zz"]


def _preids(today_short: str, k) -> dict:
    k = int(k)
    pts = _PRE_POINTS
    return {today_short: pts[k % len(pts)], "240203": pts[(k + 3) % len(pts)],
            "240204": pts[(k + 5) % len(pts)], "240205": pts[(k + 7) % len(pts)]}


def _judge_state(zdir, day, original: dict, prev: dict | None, step_no: int, had_next_ids: bool = True):
    """The four invariants in one state. Returns (problem kind, detail) or None."""
    H.freeze(day)
    files = Z.snapshot(zdir, with_meta=False)
    compiled = D.compiled_pages(zdir)
    index = D.index_value(zdir)
    # (i) every note in every file carries a ZID
    for page, pg in compiled.items():
        if pg["exc"] or pg["has_errors"]:
            return ("page-no-longer-compiles", {"page": page, "exc": pg["exc"]})
        for n in pg["notes"]:
            if not n["zid"]:
                first = files[page].split("\n")[n["line"] - 1]
                bare = re.fullmatch(r"[-ox~<>]( P[0-9])? *", first) is not None
                return ("note-without-zid-after-index" + (":first-line-holds-only-the-prefix" if bare else ""),
                        {"page": page, "line": n["line"], "first_line": first, "body": n["body"]})
    # uniqueness and form
    zids = [n["zid"] for pg in compiled.values() for n in pg["notes"]]
    if len(set(zids)) != len(zids):
        dup = sorted({z for z in zids if zids.count(z) > 1})
        # narrow class: the directory had no next_ids.json, and every duplicated ZID was
        # already written in the original files with the suffix a fresh allocator starts at
        written = {m for t in original.values() for m in re.findall(r"\b\d{6}#[0-9A-Za-z]{2,3}\b", t)}
        fresh = all(z in written and z.endswith("#00") for z in dup) and not had_next_ids
        return ("duplicate-zid-in-files" + (":fresh-allocator-reissues-a-written-zid" if fresh else ""),
                {"duplicated": dup, "zids": sorted(zids)})
    # (ii) index == recompiled files
    hard = [p for p in index["problems"] if not p.startswith("orphan ")]
    if hard:
        return ("index-structural-problem", {"problems": hard})
    d = D.diff_index_vs_files(index, compiled)
    if d:
        suffix = ""
        if d["what"] == "body" and d.get("page") in original:
            # narrow class: the item was written with NOTHING after its prefix on the first
            # line; the index then holds 'ZID body' where the rewritten file has 'ZID \n  body'
            files_first = str(d.get("files", "")).split("\n")[0].strip()
            was_bare = any(re.fullmatch(r"[-ox~<>]( P[0-9])? *", ln.rstrip("\r")) for ln in original[d["page"]].split("\n"))
            collapsed = str(d.get("index", "")) == re.sub(r" ?\r?\n\s*", " ", str(d.get("files", "")), count=1)
            if was_bare and files_first == str(d.get("zid")) and collapsed:
                suffix = ":first-line-holds-only-the-prefix"
        if d["what"] == "create":
            # narrow class: the item was written with a create date after 2099; its ZID carries the
            # last two year digits only, so the rewritten file reads as 20YY (same month and day)
            try:
                di, df = dt.date.fromisoformat(str(d.get("index"))), dt.date.fromisoformat(str(d.get("files")))
                if di.year >= 2100 and df == dt.date(2000 + di.year % 100, di.month, di.day) \
                        and str(d.get("zid", ""))[:6] == "%02d%02d%02d" % (di.year % 100, di.month, di.day):
                    suffix = ":year-beyond-2099-does-not-fit-a-zid"
            except ValueError:
                pass
        return ("index-differs-from-files:" + d["what"] + suffix, d)
    # (iii) each file = original + ZIDs on first lines of formerly ZID-less items
    for rel, orig in original.items():
        now = files.get(rel)
        if now is None:
            return ("file-disappeared", {"file": rel})
        ol, nl = orig.split("\n"), now.split("\n")
        if len(ol) != len(nl):
            return ("file-line-count-changed", {"file": rel, "before": orig, "after": now})
        starts = set(EM.item_start_lines(orig))
        for k, (a, b) in enumerate(zip(ol, nl)):
            if a == b:
                continue
            if k not in starts:
                return ("non-item-line-changed", {"file": rel, "line": k + 1, "before": a, "after": b})
            pa = EM.split_item_line(a)
            if EM.first_zid(pa["rest"].split(" ")):
                return ("line-of-note-with-zid-changed", {"file": rel, "line": k + 1, "before": a, "after": b})
            pb = EM.split_item_line(b)
            z = EM.first_zid(pb["rest"].split(" ")) if pb else None
            if not z or not ZM.well_formed(z):
                return ("rewritten-line-has-no-wellformed-zid", {"file": rel, "line": k + 1, "before": a, "after": b})
            want = EM.predict_zid_line(a, z)
            if b != want:
                sig = "rewritten-line-differs-from-prediction"
                return (sig, {"file": rel, "line": k + 1, "before": a, "after": b, "predicted": want})
            # the ZID's date part is the note's create date
            note = next((n for n in compiled[rel]["notes"] if n["zid"] == z), None)
            if note is None or note["create"] != "20%s-%s-%s" % (z[0:2], z[2:4], z[4:6]):
                return ("zid-date-not-create-date", {"zid": z, "note": note})
    extra = sorted(set(files) - set(original))
    if extra:
        return ("unexpected-new-file", {"files": extra})
    # (v) file_hash.json: exactly the pages on disk, each with the SHA-256 of its current bytes
    import hashlib

    hp = zdir / ".zorg" / "file_hash.json"
    try:
        hm = json.loads(hp.read_text())
    except Exception as e:  # noqa: BLE001
        return ("hash-map-unreadable", {"error": str(e)})
    want_hm = {rel: hashlib.sha256((zdir / rel).read_bytes()).hexdigest() for rel in files if rel.endswith(".zo")}
    if hm != want_hm:
        return ("hash-map-not-current", {"expected_pages": sorted(want_hm), "recorded_pages": sorted(hm),
                                         "stale": sorted(k for k in hm if want_hm.get(k) != hm[k])})
    # (iv) from the second step on nothing changes
    if prev is not None:
        if prev["files"] != files:
            ch = [f for f in files if prev["files"].get(f) != files[f]]
            return ("file-changed-by-a-later-run", {"step": step_no, "files": ch,
                                                    "before": {f: prev["files"].get(f) for f in ch},
                                                    "after": {f: files[f] for f in ch}})
        if prev["index"] != index["pages"]:
            return ("index-changed-by-a-later-run", {"step": step_no})
    return None


def _run_case(ctx, case) -> F.Outcome:
    if case[0] == "session":
        # ZIDs handed out and written back by reindex runs inside ONE long-lived `zorg edit` process
        from mc.checks import sessions

        try:
            return sessions.run_case(ctx, case, {"zids", "index-vs-files"})
        finally:
            H.freeze(H.rotate(_DAYS, ctx.seed)[0])
    if case[0] == "spelled":
        # the same case with the notes directory spelled differently on the command line
        H.set_dir_spelling(case[1])
        try:
            res = _run_case(ctx, case[2:])
        finally:
            H.set_dir_spelling()
        if not res.ok:
            res.detail["notes_directory_spelled"] = case[1]
        res.nontrivial = H.digest(case)
        return res
    build, hist, advance, preids = case
    day0 = H.rotate(_DAYS, ctx.seed)[0]
    files = build_files(build)
    zd = Z.make_zdir(files, "c05")
    out = F.Outcome()
    states = []
    try:
        if preids:
            (zd / ".zorg").mkdir()
            d = "%02d%02d%02d" % (day0.year % 100, day0.month, day0.day)
            (zd / ".zorg" / "next_ids.json").write_text(json.dumps(_preids(d, preids)))
        day = day0
        prev = None
        for k, ev in enumerate(hist):
            if k and advance:
                day = day + dt.timedelta(days=1)
            if ev == "p":
                # reindex of ONE explicit page (the first one); the other pages stay as they are
                first_page = sorted(files)[0]
                r = Z.db_reindex(zd, day, [str(zd / first_page)])
            else:
                r = Z.db_create(zd, day) if ev == "c" else Z.db_reindex(zd, day)
            out.transitions += 1
            if not Z.cli_ok(r):
                out.ok = False
                out.sig = f"command-failed:{'create' if ev == 'c' else 'reindex'}"
                out.detail = {"files": files, "history": hist, "step": k, "status": r.status, "exit": r.value,
                              "stderr": r.err[-1500:]}
                break
            if ev == "p":
                # judged at the next whole-directory run
                states.append(D.state_digest(zd, day))
                continue
            problem = _judge_state(zd, day, files, prev, k, had_next_ids=bool(preids))
            states.append(D.state_digest(zd, day))
            if problem:
                out.ok = False
                sig = problem[0]
                if sig.startswith(("index-differs-from-files:body", "rewritten-line-differs")):
                    if _irregular_spacing(files):
                        sig += ":irregular-spacing-after-prefix"
                out.sig = sig
                out.detail = {"files": files, "history": hist, "advance_day": advance, "step": k,
                              "day": day.isoformat(), "problem": problem[1]}
                break
            prev = {"files": Z.snapshot(zd, with_meta=False), "index": D.index_value(zd)["pages"]}
        out.states = tuple(states)
        out.obs = H.digest(states)
        out.nontrivial = H.digest(case)
    finally:
        Z.drop(zd)
    return out


def _irregular_spacing(files) -> bool:
    for t in files.values():
        for l in t.split("\n"):
            p = EM.split_item_line(l)
            if p and l[0] in "-ox~<>" and ("  " in l[: len(l) - len(p["rest"])]):
                return True
    return False


def _cases(ctx):
    hists = ["c", "cc", "cr"] if ctx.quick else ["c", "cc", "cr", "crr", "ccr", "crc"]
    cases = []
    nv = len(variant_items())
    for v in range(nv):
        if ctx.quick:
            cases.append([["variant", v], "cr", False, (v + 1) if v % 2 == 1 else 0])
            cases.append([["variant", v], "cc" if v % 2 else "cr", True, (v + 1) if v % 2 == 0 else 0])
        else:
            for h in hists:
                cases.append([["variant", v], h, False, (v + 1) if v % 2 == 1 else 0])
            cases.append([["variant", v], "cr", True, (v + 1) if v % 2 == 0 else 0])
    for i, j in it.product(range(len(REDUCED)), repeat=2):
        if ctx.quick:
            # quick: every ordered pair once, layout and history rotating with the pair
            layout = LAYOUTS[(i + j + ctx.seed) % len(LAYOUTS)]
            h = hists[(i + 2 * j) % len(hists)]
            cases.append([["pair", layout, i, j], h, (i + 2 * j) % 3 == 0, (i * 12 + j + 1) if (i + j) % 2 == 0 else 0])
        else:
            for layout in LAYOUTS:
                for h in ("cr", "ccr"):
                    for adv in (False, True):
                        cases.append([["pair", layout, i, j], h, adv, (i * 12 + j + 1) if (i + j) % 2 == 0 else 0])
    # the very first command names one page only; the whole-directory runs that follow must
    # still bring every page in
    for layout in ("two_pages", "subdir", "same_name_pages"):
        for i, j in ((0, 1), (1, 0), (3, 8), (8, 3)):
            for h in ("pr", "prr", "pc"):
                cases.append([["pair", layout, i, j], h, False, 0])
    # a directory WITHOUT next_ids.json (index rebuilt from the files alone) in which one note
    # already carries the ZID a fresh allocator starts with for the date of a ZID-less note
    wi = next(k for k, x in enumerate(REDUCED) if "240203#00" in x[0])
    for di in [k for k, x in enumerate(REDUCED) if "2024-02-03" in x[0]]:
        for layout in ("same_block", "two_pages", "subdir"):
            for i, j in ((di, wi), (wi, di)):
                cases.append([["pair", layout, i, j], "cr", False, 0])
    for v in range(nv):
        item = variant_items()[v]
        date_only_first = len(item) > 1 and item[0].split(" ")[-1][:2] == "20" and item[0].split(" ")[-1][4:5] == "-"
        if date_only_first or not ctx.quick or v % 4 == 0:
            cases.append([["variant-crlf", v], "cr", False, 0])
    # the notes directory given through a symlink / with a '..' in it (same directory, same result)
    for v in range(0, nv, 5 if ctx.quick else 2):
        cases.append(["spelled", "symlink", ["variant", v], "cr", False, 0])
    for v in range(2, nv, 11 if ctx.quick else 3):
        cases.append(["spelled", "dotdot", ["variant", v], "cr", True, v + 1])
    for layout in ("subdir", "two_pages", "same_name_pages", "deep_sections"):
        for i, j in ((0, 3), (8, 1), (5, 6)):
            cases.append(["spelled", "symlink", ["pair", layout, i, j], "cr", False, 0])
            cases.append(["spelled", "dotdot", ["pair", layout, j, i], "cc", True, 0])
    from mc.checks import sessions

    cases += sessions.cases(ctx)
    return cases


def _sample(case):
    if case[0] == "session":
        from mc.checks import sessions

        return sessions.sample(case)
    if case[0] == "spelled":
        return dict(_sample(case[2:]), notes_directory_spelled=case[1])
    return {"initial_files": build_files(case[0]), "history": case[1], "advance_day_between_steps": case[2],
            "preexisting_next_ids": case[3]}


def run(ctx: F.Ctx):
    cases = _cases(ctx)
    day = H.rotate(_DAYS, ctx.seed)[0]
    rep = F.explore(ctx, cases, lambda c: _run_case(ctx, c), sample=_sample, day=day, twice_every=0)
    meta = {
        "rule": (
            "initial directories: (a) one per ZID-less item variant (6 kinds x priority {none,P1} x "
            "identity {none, long date} x {1,2} spaces after the prefix x {single, continuation, "
            "bullets incl. a bullet property}) between two notes that already have ZIDs; (b) every "
            "ordered pair of a 12-item alphabet (ZID-less, dated, multi-line, with ZID, stamped, "
            "irregular spacing) in 5 layouts (same block, two blocks, under a dated H2, page in a "
            "sub-directory, two pages, pages with the same file name in different sub-directories, H1>H2>H3>H4 nesting, a page whose body opens with an H2 section); with and without a pre-existing next_ids.json whose next "
            "suffixes sit right before every carry and every skip over excluded characters. Histories over {create, reindex} (quick: c, cc, cr; thorough adds crr, "
            "ccr, crc), same day and with the day advancing between steps. Every transition runs "
            "the real CLI in a fresh process; state = files + raw index + meta stores. Invariants "
            "(i)-(iv) of the design in every state, plus (v) file_hash.json lists exactly the pages on "
            "disk with their current SHA-256."
        ),
        "bounds": {"histories": len(cases), "variants": len(variant_items()), "frozen_day": day.isoformat()},
        "assumptions": ["ZID-less items with a hand-written modify date are excluded (modify dates are machine-written, in front of a ZID)"],
        "exhaustive": True,
    }
    return rep, meta


def replay(case, ctx: F.Ctx) -> F.Outcome:
    return _run_case(ctx, list(case))
