"""C09 — Query output renders the selected notes faithfully.

(select form x grouping list x ordering list x filter) on two indexes built by
the real `db create`; the text produced by the real executor is parsed back
into groups and judged by laws computed from the raw index rows: every matching
note exactly once with its exact text, header chain = the note's value for each
grouping dimension, sibling groups sorted and distinct, adjacent notes ordered
by the ORDER BY keys, selections = distinct values of the group, and count(x)
differentially equal to the number of entries `S x` prints for the same group.
"""

from __future__ import annotations

import datetime as dt
import itertools as it

from mc.core import framework as F
from mc.core import harness as H
from mc.core import idx as IX
from mc.core import qwf
from mc.models import corpora as C
from mc.models import output_model as OM
from mc.models import query_model as Q

ID = "C09"
LEVEL = "exploration"
DAY = dt.date(2024, 5, 15)
_IX: dict[str, IX.Index] = {}

DIMS = ["file", "section", "type", "priority", "#", "@", "%", "+"]
ORDER_KEYS = ["alpha", "create", "modify", "priority", "type", "none"]
SELECTS = [["note"], ["file"], ["#"], ["@"], ["%"], ["+"], ["prop"], ["propvals", "k"], ["propvals", "n"], ["links"]]
WHERES = {
    "K4H": [None, [[["kind", "-o"]], [["tag", "+", "j1", False]]], [[["tag", "+", "nosuch", False]]]],
    "K1": [None, [[["kind", "o<>-"], ["tag", "@", "c2", True]]], [[["tag", "+", "nosuch", False]]]],
    "K4": [None, [[["kind", "-o"]], [["tag", "+", "j1", False]]], [[["tag", "+", "nosuch", False]]]],
}
LONG_GROUPS = [
    ["file", "section"], ["type", "priority"], ["#", "file", "type"], ["file", "section", "type", "priority"],
    ["@", "#", "+", "%"], ["priority", "type", "file"],
    ["section", "@"], ["section", "type"], ["section", "priority"], ["section", "file"], ["@", "section"],
]


def _k4_history_edits(zd):
    """What happened to the K4 directory after it was indexed: a page that was the only holder of a
    link, a project and a property key is deleted, and the last holder of another link loses it."""
    (zd / "gone.zo").unlink()
    p = zd / "stays.zo"
    p.write_text(p.read_text().replace(" [[lonely]] @lonelyctx lonelykey::v", ""))


K4H_EXTRA = {
    "gone.zo": "# Gone page +goneproj\n\n- 240901#G1 only holder [[vanishing]] %goneperson gonekey::gv\n",
    "stays.zo": "# Stays\n\n- 240902#S1 loses its link [[lonely]] @lonelyctx lonelykey::v\n- 240902#S2 keeps [[kept]] +keptproj\n",
}


def _index(name) -> IX.Index:
    ix = _IX.get(name)
    if ix is None:
        if name == "K4H":
            # K4 plus two pages, after a real delete / edit / reindex history (tag and link tables may
            # still hold rows no note refers to: a selection lists what the NOTES carry)
            ix = _IX[name] = IX.Index.after_history({**C.K4, **K4H_EXTRA}, DAY, _k4_history_edits, tag="c09h")
        else:
            ix = _IX[name] = IX.Index(C.K1 if name == "K1" else C.K4, DAY, tag="c09")
    return ix


def _values(note: dict, sel) -> list[str]:
    k = sel[0]
    if k == "file":
        return [note["page"]]
    if k in OM.TAG_DIM:
        return list(note[OM.TAG_DIM[k]])
    if k == "prop":
        return list(note["props"].keys())
    if k == "propvals":
        return [note["props"][sel[1]]] if sel[1] in note["props"] else []
    if k == "links":
        return list(note["links"])
    raise ValueError(sel)


def _zid_of_entry(entry: str):
    words = entry.split("\n")[0].split(" ")
    for w in words[1:4]:
        if len(w) in (9, 10) and w[6:7] == "#" and w[:6].isdigit():
            return w
    return None


def _judge(ix: IX.Index, select, where, order, group, text_out: str, count_of=None):
    """Returns list of (kind, detail) problems."""
    U = ix.universe
    matching = [n for n in U.notes if where is None or Q.holds_or(where, n, U, DAY)]
    dims = [g for g in (group or []) if g != "none"]
    keys = order if order is not None else ["type", "priority", "modify", "create"]
    alpha_only = set(keys) == {"alpha"}
    inner = select[1] if select[0] == "count" else select
    notes_mode = inner[0] == "note" and select[0] != "count"
    groups, problems = OM.parse_output(text_out, len(dims), notes_mode)
    probs = [("output-structure", {"what": p}) for p in problems]
    # expected partition
    exp: dict[tuple, list[dict]] = {}
    for n in matching:
        chain = tuple(OM.expected_label(n, d) for d in dims)
        exp.setdefault(chain, []).append(n)
    chains = [c for c, _ in groups]
    if len(set(chains)) != len(chains):
        probs.append(("group-header-repeated", {"chains": chains}))
    if chains != sorted(chains):
        probs.append(("sibling-groups-not-sorted", {"chains": chains}))
    seen_chain = {c: e for c, e in groups}
    by_zid = {n["zid"]: n for n in U.notes}
    if select[0] == "count":
        # differential against the output of the plain selection
        plain_groups = {c: e for c, e in count_of}
        for c, e in groups:
            if len(e) != 1 or not e[0].isdigit():
                probs.append(("count-entry-malformed", {"chain": c, "entries": e}))
                continue
            if int(e[0]) != len(plain_groups.get(c, [])):
                probs.append(("count-differs-from-selection", {"chain": c, "count": int(e[0]),
                                                               "selection_entries": plain_groups.get(c, [])}))
        for c in exp:
            if c not in seen_chain and len(matching) > 0:
                probs.append(("group-missing-in-count-output", {"chain": c}))
        return probs
    if notes_mode:
        printed = []
        for c, entries in groups:
            for e in entries:
                z = _zid_of_entry(e)
                printed.append(z)
                n = by_zid.get(z)
                if n is None:
                    probs.append(("unknown-note-printed", {"entry": e}))
                    continue
                if e != OM.expected_text(n):
                    probs.append(("note-text-differs", {"expected": OM.expected_text(n), "observed": e}))
                want_chain = tuple(OM.expected_label(n, d) for d in dims)
                if c != want_chain:
                    probs.append(("note-under-wrong-headers", {"zid": z, "expected": want_chain, "observed": c}))
            ns = [by_zid[z] for z in (_zid_of_entry(e) for e in entries) if z in by_zid]
            for a, b in zip(ns, ns[1:]):
                bad = OM.order_cmp(a, b, keys)
                if bad:
                    if bad == "none" and a["page"] == b["page"] and str(a["line"]) < str(b["line"]) \
                            and all(OM.order_cmp(a, b, keys[:i]) is None and OM.order_cmp(b, a, keys[:i]) is None
                                    for i in range(keys.index("none") + 1)):
                        # the listed finding: equal on every earlier key, same page, and the
                        # two line numbers are in *string* order
                        bad = "none:line-numbers-compared-as-strings"
                    probs.append((f"order-violated:{bad}", {"chain": c, "first": a["zid"], "second": b["zid"],
                                                            "first_key": _k(a, bad), "second_key": _k(b, bad)}))
        want = sorted(n["zid"] for n in matching)
        if sorted(p for p in printed if p) != want:
            probs.append(("selected-notes-not-each-exactly-once",
                          {"expected": want, "observed": sorted(p for p in printed if p)}))
        return probs
    # value selections
    for c, entries in groups:
        want_vals = set()
        for n in exp.get(c, []):
            want_vals.update(_values(n, inner))
        if len(set(entries)) != len(entries):
            probs.append(("selection-has-duplicates", {"chain": c, "entries": entries}))
        if set(entries) != want_vals:
            probs.append(("selection-values-differ", {"chain": c, "expected": sorted(want_vals), "observed": entries}))
        if alpha_only and entries != sorted(entries):
            probs.append(("selection-not-sorted-under-alpha", {"chain": c, "entries": entries}))
    for c, ns in exp.items():
        vals = set()
        for n in ns:
            vals.update(_values(n, inner))
        if vals and c not in seen_chain:
            probs.append(("group-missing", {"chain": c, "expected": sorted(vals)}))
    return probs


# ---- the same query at other verbosity levels ------------------------------------------------
VERBOSE_QUERIES = ["S note W o O alpha G none", "S note G file", "S # O alpha", "S count(note) W -", "S note W +j1 O create G type",
                   "S links O alpha G file"]


def _run_verbose_case(ctx, case) -> F.Outcome:
    """`zorg -v query` / `zorg -vv query` through the CLI: whatever else is printed at a higher verbosity
    (the SQL statement), the rendering of the selection is the same text, at the end of the output."""
    _, qi, flag = case
    ix = _index("K4")
    H.freeze(DAY)
    out = F.Outcome()
    q = VERBOSE_QUERIES[qi]
    plain = H.run_cli(ix.zdir, "query", q, day=DAY)
    loud = H.run_cli(ix.zdir, flag, "query", q, day=DAY)
    out.obs = H.digest([plain.out, loud.out[-len(plain.out):] if plain.out else ""])
    out.nontrivial = H.digest(case)
    problem = None
    if plain.status != "ok" or plain.value != 0 or not plain.out.strip():
        raise H.HarnessError(f"plain CLI query failed or empty: {q!r} {plain.status} {plain.value} {plain.err[-300:]}")
    if loud.status != "ok" or loud.value != 0:
        problem = ("verbose-query-failed", {"status": loud.status, "exit": loud.value, "stderr": loud.err[-600:]})
    elif not loud.out.rstrip("\n").endswith(plain.out.rstrip("\n")):
        problem = ("verbose-query-renders-another-selection", {"plain_stdout": plain.out[-1500:], "verbose_stdout_tail": loud.out[-1500:]})
    if problem:
        out.ok = False
        out.sig = problem[0]
        out.detail = {"index": "K4", "query": q, "flag": flag, **problem[1]}
    return out


# ---- a note line copied to another page: two notes share a ZID ------------------------------
DUP_FILES = {
    "a.zo": "# A #pa\n\n- 240101#A1 early on a #t1\n- 240105#DD shared zid, the copy on a @ca #t1\n- 240107#A3 late on a #t1\n",
    "b.zo": "# B #pb\n\n- 240102#B1 early on b #t1\n- 240105#DD shared zid, the copy on b @cb #t1\n",
    "c.zo": "# C\n\no 240103#C1 a todo elsewhere #t1\n- 240106#C2 holds no shared zid\n",
}
DUP_QUERIES = [
    (None, None, ["none"]), (None, ["none"], ["none"]), (None, ["alpha"], ["none"]), (None, None, ["file"]),
    ([[["kind", "-"]]], ["none"], ["none"]), ([[["kind", "-"]]], None, ["file"]), ([[["kind", "-"]]], ["alpha"], ["file"]),
    ([[["tag", "#", "t1", False]]], ["none"], ["file"]), ([[["tag", "#", "t1", False]]], ["create"], ["none"]),
    ([[["kind", "-"]]], ["none"], ["#"]), ([[["tag", "@", "cb", False]]], None, ["file"]),
    ([[["tag", "@", "ca", False]], [["tag", "@", "cb", False]]], None, ["file"]),
]


# ---- page paths in which '.zo' occurs before the extension as well ---------------------------
PATHS_FILES = {
    "my.zone/a.zo": "# A\n\n- 240101#A1 on a page in a directory named my.zone #t1\n",
    "x.zoo.zo": "# X\n\n- 240102#X1 on a page named x.zoo #t1\no 240103#X2 a todo there\n",
    "plain.zo": "# P\n\n- 240104#P1 on an ordinary page #t1\n",
}
PATHS_QUERIES = [(None, None, ["file"]), ([[["tag", "#", "t1", False]]], ["alpha"], ["file"]),
                 ([[["kind", "-"]]], None, ["type", "file"])]
SMALL = {"DUP": DUP_FILES, "PATHS": PATHS_FILES}


def _small_index(name):
    ix = _IX.get(name)
    if ix is None:
        ix = _IX[name] = IX.Index(SMALL[name], DAY, tag="c09d", allow_shared_zids=(name == "DUP"))
    return ix


def _run_dup_case(ctx, case) -> F.Outcome:
    """Every matching note exactly once, under its own headers: notes are told apart by their text."""
    name, where, order, group = case
    DUP_FILES = SMALL[name]  # noqa: N806
    ix = _small_index(name)
    H.freeze(DAY)
    out = F.Outcome()
    qtext = Q.render_query(["note"], where, order, group)
    ok, why = qwf.wellformed(qtext)
    if not ok:
        out.ok, out.sig, out.detail = False, "generated-query-rejected-by-grammar", {"query": qtext, "why": why}
        return out
    res, err = ix.execute(qtext)
    out.obs = H.digest(res if err is None else err)
    out.nontrivial = H.digest([name, qtext])
    if err is not None:
        out.ok, out.sig, out.detail = False, "execute-raised:" + err.split(":")[0], {"index": name, "query": qtext, "error": err}
        return out
    U = ix.universe
    dims = [g for g in (group or []) if g != "none"]
    matching = [n for n in U.notes if where is None or Q.holds_or(where, n, U, DAY)]
    groups, problems = OM.parse_output(res, len(dims), True)
    want = sorted([list(OM.expected_label(n, d) for d in dims), OM.expected_text(n)] for n in matching)
    got = sorted([list(c), e] for c, entries in groups for e in entries)
    if problems:
        out.ok, out.sig = False, "output-structure"
        out.detail = {"index": name, "query": qtext, "problem": problems, "output": res[:2000]}
    elif got != want:
        out.ok = False
        out.sig = ("shared-zid" if name == "DUP" else "dotted-paths") + ":selected-notes-not-each-exactly-once-under-their-own-headers"
        out.detail = {"index": name, "files": DUP_FILES, "query": qtext, "expected": want, "observed": got, "output": res[:2000]}
    return out


def _k(n, key):
    key = key.split(":")[0]
    return {"none": (n["page"], n["line"]), "alpha": OM.expected_text(n), "create": n["create"],
            "modify": n["modify"], "type": OM.TYPE_LABEL[n["kind"]], "priority": n["priority"]}[key]


def _run_case(ctx, case) -> F.Outcome:
    if case[0] in SMALL:
        return _run_dup_case(ctx, case)
    if case[0] == "verbose":
        return _run_verbose_case(ctx, case)
    name, select, wi, order, group = case
    ix = _index(name)
    H.freeze(DAY)
    where = WHERES[name][wi]
    out = F.Outcome()
    qtext = Q.render_query(select, where, order, group)
    ok, why = qwf.wellformed(qtext)
    if not ok:
        out.ok = False
        out.sig = "generated-query-rejected-by-grammar"
        out.detail = {"query": qtext, "why": why}
        return out
    res, err = ix.execute(qtext)
    out.obs = H.digest(res if err is None else err)
    out.nontrivial = H.digest([name, qtext]) if wi != 2 else None
    if err is not None:
        out.ok = False
        out.sig = "execute-raised:" + err.split(":")[0]
        out.detail = {"index": name, "query": qtext, "error": err}
        return out
    count_of = None
    if select[0] == "count":
        q2 = Q.render_query(select[1], where, order, group)
        res2, err2 = ix.execute(q2)
        if err2 is not None:
            out.ok = False
            out.sig = "execute-raised:" + err2.split(":")[0]
            out.detail = {"index": name, "query": q2, "error": err2}
            return out
        dims = [g for g in (group or []) if g != "none"]
        count_of, _ = OM.parse_output(res2, len(dims), select[1][0] == "note")
    probs = _judge(ix, select, where, order, group, res, count_of)
    if probs:
        # a listed finding never hides another problem of the same output
        first = next((p for p in probs if not p[0].endswith("line-numbers-compared-as-strings")), probs[0])
        out.ok = False
        out.sig = first[0]
        out.detail = {"index": name, "query": qtext, "problem": first[1], "all_problem_kinds": sorted({p[0] for p in probs}),
                      "output": res[:3000]}
    return out


def _cases(ctx):
    cases = []
    groups = [None, ["none"]] + [[d] for d in DIMS]
    if ctx.quick:
        groups += LONG_GROUPS
    else:
        groups += [list(g) for g in it.permutations(DIMS, 2)]
        for trip in (("file", "section", "type"), ("#", "@", "priority"), ("type", "priority", "+")):
            groups += [list(g) for g in it.permutations(trip)]
        groups += [list(g) for g in it.permutations(("file", "type", "#", "priority"))]
        groups += LONG_GROUPS
    orders_note = [None] + [[k] for k in ORDER_KEYS]
    pairs = [list(p) for p in it.product(ORDER_KEYS, repeat=2) if p[0] != p[1]]
    orders_note += pairs if not ctx.quick else pairs[(ctx.seed % 3)::3]
    orders_val = [None, ["alpha"], ["none"], ["create", "alpha"]]
    for name in ("K1", "K4"):
        for wi in range(3):
            for g in groups:
                for sel in SELECTS:
                    orders = orders_note if sel[0] == "note" else orders_val
                    for o in orders:
                        cases.append([name, sel, wi, o, g])
                        if sel[0] != "note" or o is None or o == ["none"]:
                            cases.append([name, ["count", sel], wi, o, g])
    # value selections on an index with a history (no filter / a filter, no grouping / by file)
    for sel in SELECTS:
        if sel[0] == "note":
            continue
        for wi in (0, 1):
            for g in (None, ["file"]):
                for o in orders_val:
                    cases.append(["K4H", sel, wi, o, g])
                    cases.append(["K4H", ["count", sel], wi, o, g])
    for qi in range(len(VERBOSE_QUERIES)):
        for flag in ("-v", "-vv", "-vvv"):
            cases.append(["verbose", qi, flag])
    for w, o, g in DUP_QUERIES:
        cases.append(["DUP", w, o, g])
    for w, o, g in PATHS_QUERIES:
        cases.append(["PATHS", w, o, g])
    return cases


def _sample(case):
    if case[0] == "verbose":
        return {"cli": f"zorg {case[2]} query {VERBOSE_QUERIES[case[1]]!r}"}
    if case[0] in SMALL:
        return {"index": case[0] + " (two notes share a ZID / '.zo' inside page paths)", "query": Q.render_query(["note"], case[1], case[2], case[3])}
    name, select, wi, order, group = case
    return {"index": name, "query": Q.render_query(select, WHERES[name][wi], order, group)}


def run(ctx: F.Ctx):
    H.freeze(DAY)
    cases = _cases(ctx)
    for n in ("K1", "K4", "K4H"):
        _index(n)
    _small_index("DUP")
    _small_index("PATHS")
    try:
        rep = F.explore(ctx, cases, lambda c: _run_case(ctx, c), sample=_sample, day=DAY, twice_every=499)
    finally:
        for ix in _IX.values():
            ix.drop()
        _IX.clear()
    meta = {
        "rule": (
            "indexes: K1 (28 notes / 8 pages incl. a sub-directory and sections) and K4 (a page "
            "with 13 notes in one block so line numbers reach two digits, repeated section titles "
            "in different branches, H1-H4 nesting, equal create dates, a page whose path extends "
            "another's); select in 10 forms each also under count(); grouping: none, 'none', each of "
            "8 dimensions, 6 longer lists (thorough: all ordered pairs, permutations of 3 triples "
            "and one quadruple); ordering: default, each of 6 keys, ordered pairs of distinct keys "
            "(quick: a third of them, chosen by seed) for note selections, {default, alpha, none, "
            "create alpha} for value selections; 3 filters per index (no WHERE, a mid-selectivity "
            "filter, a filter selecting nothing); plus a three-page index in which a note line was copied to another page "
            "(two notes share a ZID, each page also holds an earlier ZID) under 12 note queries, where every matching note "
            "must be listed exactly once under its own headers (notes told apart by their text); the K4 index after a real history (a page that was the only holder of a link / project / person / key deleted, another last holder edited, plain reindex) under every value selection and its count; and a three-page index whose page paths contain '.zo' before the extension too (my.zone/a.zo, x.zoo.zo) under 3 queries grouped by file. Laws in the module docstring. Non-trivial = the "
            "filter selects something."
        ),
        "bounds": {"cases": len(cases), "frozen_day": DAY.isoformat()},
        "assumptions": [
            "order between a todo and a plain note under `priority` is not defined by the statement and not judged",
            "the set of matching notes comes from the set-algebra model over raw rows (C03 judges the filter itself)",
        ],
        "exhaustive": True,
    }
    return rep, meta


def replay(case, ctx: F.Ctx) -> F.Outcome:
    try:
        return _run_case(ctx, list(case))
    finally:
        for ix in _IX.values():
            ix.drop()
        _IX.clear()
