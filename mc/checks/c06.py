"""C06 — Incremental reindexing is equivalent to rebuilding the index.

Breadth-first search over histories of file-system edits, `db reindex` runs
(plain and with an explicit path) and day advances, on real directories; in
every state reached by a plain reindex the index is compared (raw rows, via
sqlite3) with an index freshly created by the real `db create` from a copy of
the final files, and a fixed set of queries is run on both.
"""

from __future__ import annotations

import datetime as dt
import json
import re
from pathlib import Path

from mc.core import bfs as B
from mc.core import dirstate as D
from mc.core import framework as F
from mc.core import harness as H
from mc.core import zdir as Z
from mc.models import index_reader as IR

ID = "C06"
LEVEL = "model_checking"
H1R, H2R = "#" * 32, "=" * 24
_DAYS = [dt.date(2024, 5, 15), dt.date(2025, 2, 27), dt.date(2026, 12, 30)]

BASE = {
    "a.zo": f"""# A page #shared +pa
# st::active

- 240101#A1 first note v0 [[sub/b]] key::one
o P1 240101#A2 todo in a #only_here [[only_link]]
- 240102#A3 third note to delete @ctx

{H1R} Sec A

- 240103#A4 note in section
""",
    "sub/b.zo": f"""# B page #shared
# st::backlog

- 240201#B1 b first [[a]] key::two
o 240202#B2 b todo to move %bob

{H2R} B Sec hv0

- 240203#B3 in b section

{"+" * 16} B Deep #deep

- 240204#B4 under h3

{"-" * 8} B Deeper

o P2 240205#B5 under h4 key::three
""",
    # no note of this page has a property; its last note is the only carrier of +rocket
    "t.zo": """# T page

- 240401#T1 first on t
- 240402#T2 middle, goes away
- 240403#T3 last one +rocket
""",
    # sorts last; can be broken for a while
    "zz.zo": """# ZZ page

- 240501#Z1 note on the last page
""",
}

# a long journal page (well over 8 KiB, line numbers with three digits): explored in a small
# directory of its own, so that the main search does not pay for it in every state
LONG = {
    "long.zo": "# LONG page\n\n" + "".join(
        f"- 2406{1 + k // 60:02d}#{'0123456789ABCDEFGHJKLMNPRTUVWXYZ'[(k // 30) % 30]}{'0123456789ABCDEFGHJKLMNPRTUVWXYZ'[k % 30]} "
        f"journal entry number {k} with some more words to make the line long enough\n" for k in range(140)),
}
LONG_EVENTS = ["edit_long_tail", "edit_body_a", "add_note_a", "R", "Rp", "D"]
# on a machine whose local calendar day is not the UTC calendar day (00:30 at UTC+2, 19:30 at UTC-8)
ZONE_EVENTS = ["edit_body_a", "kind_a", "add_note_a", "R", "Rp", "D"]

EVENTS = ["edit_body_a", "kind_a", "add_note_a", "del_note_a", "move_note", "add_page_c", "del_page_c",
          "del_page_b", "rename_b_d", "restore_b", "title_tags_a", "header_b", "drop_last_tag", "del_note_t", "break_z", "fix_z",
          "R", "Rp", "Rq", "D"]

QUERIES = [
    "S note W +rocket O alpha G none", "S + O alpha",
    "S note O alpha G none", "S note W #shared O alpha G none", "S note W o O alpha G none",
    "S note W #only_here O alpha G none", "S note W key:* O alpha G none", "S note W [[a]] O alpha G none",
    "S note W [[sub/b]] O alpha G none", "S # O alpha", "S prop O alpha", "S file O alpha",
    "S links O alpha", "S count(links) O alpha", "S @ O alpha", "S count(#) O alpha",
    "S count(note)", "S note W f=s* O alpha G none", "S note W 'edited' O alpha G none", "S note W st=active O alpha G none", "S prop:st O alpha",
]


def _bfile(zd: Path):
    for name in ("sub/b.zo", "sub/d.zo"):
        if (zd / name).exists():
            return zd / name
    return None


def apply_edit(zd: Path, ev: str, guards: dict) -> bool:
    """Apply a file-system edit; False if not enabled in this state."""
    a = zd / "a.zo"
    if ev == "edit_body_a":
        t = a.read_text()
        for k in (0, 1):
            if f"first note v{k}" in t:
                a.write_text(t.replace(f"first note v{k}", f"first note v{k + 1}"))
                return True
        return False
    if ev == "kind_a":
        t = a.read_text()
        new = re.sub(r"(?m)^o (P1 (?:\d{6} )?240101#A2)", r"x \1", t)
        if new == t:
            return False
        a.write_text(new)
        return True
    if ev == "add_note_a":
        n = guards.get("added", 0)
        if n >= 2:
            return False
        guards["added"] = n + 1
        t = a.read_text()
        a.write_text(t + f"- brand new note n{n + 1} +pnew\n")
        return True
    if ev == "del_note_a":
        t = a.read_text()
        lines = t.split("\n")
        keep = [l for l in lines if "240102#A3" not in l]
        if len(keep) == len(lines):
            return False
        a.write_text("\n".join(keep))
        return True
    if ev == "move_note":
        b = _bfile(zd)
        if b is None:
            return False
        bl = b.read_text().split("\n")
        mv = [l for l in bl if "240202#B2" in l]
        if not mv:
            return False
        b.write_text("\n".join(l for l in bl if "240202#B2" not in l))
        al = a.read_text().split("\n")
        idx = next(i for i, l in enumerate(al) if "240101#A1" in l)
        a.write_text("\n".join(al[: idx + 1] + mv + al[idx + 1:]))
        return True
    if ev == "add_page_c":
        c = zd / "c.zo"
        if c.exists():
            return False
        c.write_text("# C page #shared\n\n- 240301#C1 note in c [[a]]\n")
        return True
    if ev == "del_page_c":
        c = zd / "c.zo"
        if not c.exists() or guards.get("c_deleted"):
            return False
        guards["c_deleted"] = 1
        c.unlink()
        return True
    if ev == "del_page_b":
        b = _bfile(zd)
        if b is None:
            return False
        guards["b_text"] = b.read_text()
        b.unlink()
        return True
    if ev == "rename_b_d":
        b = zd / "sub/b.zo"
        if not b.exists():
            return False
        b.rename(zd / "sub/d.zo")
        return True
    if ev == "restore_b":
        # the page comes back under its old name, byte-identical to what was
        # indexed before it vanished (restored from a backup / renamed back)
        b = zd / "sub/b.zo"
        if b.exists() or guards.get("restored", 0) >= 1:
            return False
        guards["restored"] = 1
        d = zd / "sub/d.zo"
        if d.exists():
            d.rename(b)
        else:
            b.parent.mkdir(parents=True, exist_ok=True)
            b.write_text(guards.get("b_text") or BASE["sub/b.zo"])
        return True
    if ev == "edit_long_tail":
        # an edit far beyond the first 8 KiB of a long page (its beginning stays byte-identical)
        lp = zd / "long.zo"
        t = lp.read_text()
        for k in (0, 1):
            old = "journal entry number 139" + (" edited" * k) + " with"
            if old in t and ("journal entry number 139" + " edited" * (k + 1) + " with") not in t:
                lp.write_text(t.replace(old, "journal entry number 139" + " edited" * (k + 1) + " with"))
                return True
        return False
    if ev == "break_z":
        zp = zd / "zz.zo"
        if guards.get("z_broken") or guards.get("z_was_broken"):
            return False
        guards["z_broken"] = 1
        guards["z_was_broken"] = 1
        zp.write_text(zp.read_text() + "-- this line is a syntax error\n- 240502#Z2 added while broken\n")
        return True
    if ev == "fix_z":
        zp = zd / "zz.zo"
        if not guards.get("z_broken"):
            return False
        guards["z_broken"] = 0
        zp.write_text(zp.read_text().replace("-- this line is a syntax error\n", ""))
        return True
    if ev == "del_note_t":
        tp = zd / "t.zo"
        lines = tp.read_text().split("\n")
        keep = [l for l in lines if "240402#T2" not in l]
        if len(keep) == len(lines):
            return False
        tp.write_text("\n".join(keep))
        return True
    if ev == "title_tags_a":
        t = a.read_text()
        if "+pa2" in t.split("\n")[0]:
            new = t.replace("#shared +pa2", "#shared +pa", 1)
        else:
            new = t.replace("#shared +pa", "#shared +pa2", 1)
        if guards.get("title", 0) >= 2:
            return False
        guards["title"] = guards.get("title", 0) + 1
        a.write_text(new)
        return True
    if ev == "header_b":
        b = _bfile(zd)
        if b is None:
            return False
        t = b.read_text()
        for k in (0, 1):
            if f"B Sec hv{k}" in t:
                b.write_text(t.replace(f"B Sec hv{k}", f"B Sec hv{k + 1}"))
                return True
        return False
    if ev == "drop_last_tag":
        t = a.read_text()
        if " #only_here [[only_link]]" not in t:
            return False
        # the only holder of a tag AND of a link loses both
        a.write_text(t.replace(" #only_here [[only_link]]", ""))
        return True
    raise H.HarnessError(ev)


def _run_queries(zdir_s: str, queries):
    from zorg.service import swog

    out = []
    for q in queries:
        try:
            out.append(swog.execute(Path(zdir_s), H.db_url(Path(zdir_s)), q))
        except Exception as e:  # noqa: BLE001
            out.append(f"EXC {type(e).__name__}: {e}")
    return out


def judge_after_plain_reindex(zd: Path, day: dt.date):
    """Differential oracle: history's index vs a fresh `db create` of the files."""
    idx = IR.read_index(zd)
    # Rows no query can observe (a tag/link/property row that no note refers to
    # any more) are not a violation of the statement; everything else is.
    hard = [p for p in idx["problems"] if not p.startswith("orphan ")]
    if hard:
        return ("index-structural-problem", {"problems": hard})
    fresh = Z.copy_zdir(zd, with_index=False, tag="c06f")
    try:
        r = Z.db_create(fresh, day)
        if not Z.cli_ok(r):
            return ("fresh-create-failed-on-final-files", {"stderr": r.err[-800:], "files": Z.snapshot(zd, with_meta=False)})
        fidx = IR.read_index(fresh)
        if Z.snapshot(fresh, with_meta=False) != Z.snapshot(zd, with_meta=False):
            return ("files-not-settled-after-reindex", {
                "after_history": Z.snapshot(zd, with_meta=False), "after_fresh_create": Z.snapshot(fresh, with_meta=False)})
        if idx["pages"] != fidx["pages"]:
            what = _first_page_diff(idx["pages"], fidx["pages"])
            return ("index-differs-from-fresh-rebuild:" + what[0], what[1])
        q1 = H.run_child(_run_queries, str(zd), QUERIES, day=day, capture=False)
        q2 = H.run_child(_run_queries, str(fresh), QUERIES, day=day, capture=False)
        if q1.status != "ok" or q2.status != "ok":
            raise H.HarnessError(f"query child failed {q1.exc} {q2.exc}")
        for q, x, y in zip(QUERIES, q1.value, q2.value):
            if x != y:
                return ("query-answer-differs-from-fresh-rebuild", {"query": q, "after_history": x, "fresh": y})
    finally:
        Z.drop(fresh)
    return None


def _first_page_diff(a: dict, b: dict):
    if sorted(a) != sorted(b):
        extra = sorted(set(a) - set(b))
        missing = sorted(set(b) - set(a))
        kind = "stale-page-in-index" if extra and not missing else ("page-missing-from-index" if missing and not extra else "page-set")
        return (kind, {"only_in_history_index": extra, "only_in_fresh_index": missing})
    for p in sorted(a):
        if a[p] != b[p]:
            na, nb = a[p]["notes"], b[p]["notes"]
            if len(na) != len(nb):
                return ("note-count", {"page": p, "history": [n["zid"] for n in na], "fresh": [n["zid"] for n in nb]})
            for x, y in zip(na, nb):
                for f in x:
                    if x[f] != y.get(f):
                        return (f"note-field-{f}", {"page": p, "zid": x["zid"], "history": x[f], "fresh": y.get(f)})
            return ("page-sections", {"page": p, "history": a[p]["sections"], "fresh": b[p]["sections"]})
    return ("?", {})


def step(st: B.St, ev: str) -> B.StepResult:
    # the zone of the machine is part of the state ("today" is the LOCAL calendar day)
    H.set_zone(st.extra.get("zone", "utc-noon"))
    try:
        return _step(st, ev)
    finally:
        H.set_zone()


def _step(st: B.St, ev: str) -> B.StepResult:
    src = Path(st.path)
    guards = dict(st.guards)
    day = st.day
    if ev == "D":
        if guards.get("days", 0) >= 2:
            return B.StepResult(None)
        guards["days"] = guards.get("days", 0) + 1
    zd = Z.copy_zdir(src, with_index=True, tag="c06s")
    res = B.StepResult(None)
    problem = None
    judged = False
    try:
        if ev == "D":
            day = day + dt.timedelta(days=1)
        elif ev in ("R", "Rp", "Rq"):
            if ev in ("Rp", "Rq") and not (zd / "a.zo").exists():
                Z.drop(zd)
                return res
            if ev == "Rq":
                # the explicit path as shell completion may leave it: through a sub-directory and back
                if guards.get("rq", 0) >= 1 or not (zd / "sub").is_dir():
                    Z.drop(zd)
                    return res
                guards["rq"] = 1
            paths = {"R": [], "Rp": [str(zd / "a.zo")], "Rq": [str(zd) + "/sub/../a.zo"]}[ev]
            r = Z.db_reindex(zd, day, paths)
            if not Z.cli_ok(r):
                if guards.get("z_broken") and ev == "R":
                    # a page is broken right now: the refusal is the specified behaviour;
                    # whatever was indexed before the refusal stays, and is judged at the
                    # next successful plain reindex
                    pass
                else:
                    problem = (f"reindex-failed:{ev}", {"status": r.status, "exit": r.value, "stderr": r.err[-1200:]})
            elif ev == "R":
                H.freeze(day)
                problem = judge_after_plain_reindex(zd, day)
                judged = True
        else:
            if not apply_edit(zd, ev, guards):
                Z.drop(zd)
                return res
        hist = st.hist + [ev]
        new = B.St(path=str(zd), day=day, hist=hist, guards=guards, extra=dict(st.extra))
        new.key = H.digest([D.state_digest(zd, day), sorted(guards.items()), st.extra.get("zone", "utc-noon")])
        if problem:
            detail = dict(problem[1])
            detail.update({"history": hist, "day": day.isoformat(), "zone": st.extra.get("zone", "utc-noon"),
                           "files": Z.snapshot(zd, with_meta=False)})
            problem = (problem[0], detail)
        return B.StepResult(new, problem, judged, 1, nontrivial=judged and any(
            h not in ("R", "Rp", "Rq", "D") for h in hist))
    except Exception:
        Z.drop(zd)
        raise


def make_inits(day: dt.date):
    """Five initial states, all produced by the real commands."""
    inits = []
    base = Z.make_zdir(BASE, "c06i")
    r = Z.db_create(base, day)
    if not Z.cli_ok(r):
        raise H.HarnessError("initial db create failed: " + r.err[-500:])
    s0 = B.St(path=str(base), day=day, hist=[], guards={}, extra={"init": "indexed"})
    s0.key = H.digest([D.state_digest(base, day), []])
    inits.append(s0)
    # one ZID-less note pending (added, not yet indexed)
    p1 = Z.copy_zdir(base, tag="c06i")
    g1: dict = {}
    apply_edit(p1, "add_note_a", g1)
    s1 = B.St(path=str(p1), day=day, hist=[], guards=g1, extra={"init": "pending-new-note"})
    s1.key = H.digest([D.state_digest(p1, day), sorted(g1.items())])
    inits.append(s1)
    # after one earlier stamped edit (edit, next day, reindex)
    p2 = Z.copy_zdir(base, tag="c06i")
    g2: dict = {"days": 1}
    apply_edit(p2, "edit_body_a", g2)
    d2 = day + dt.timedelta(days=1)
    r = Z.db_reindex(p2, d2)
    if not Z.cli_ok(r):
        raise H.HarnessError("initial reindex failed: " + r.err[-500:])
    s2 = B.St(path=str(p2), day=d2, hist=[], guards=g2, extra={"init": "after-stamped-edit"})
    s2.key = H.digest([D.state_digest(p2, d2), sorted(g2.items())])
    inits.append(s2)
    # a page vanished and the index already followed (delete, reindex)
    p3 = Z.copy_zdir(base, tag="c06i")
    g3: dict = {}
    apply_edit(p3, "del_page_b", g3)
    r = Z.db_reindex(p3, day)
    if not Z.cli_ok(r):
        raise H.HarnessError("initial reindex failed: " + r.err[-500:])
    s3 = B.St(path=str(p3), day=day, hist=[], guards=g3, extra={"init": "after-page-deleted-and-reindexed"})
    s3.key = H.digest([D.state_digest(p3, day), sorted(g3.items())])
    inits.append(s3)
    # a plain reindex was refused half-way: a new page had been added and a later page is
    # broken (whatever the refused run indexed before it stopped is in the index already)
    p4 = Z.copy_zdir(base, tag="c06i")
    g4: dict = {}
    apply_edit(p4, "add_page_c", g4)
    apply_edit(p4, "break_z", g4)
    r = Z.db_reindex(p4, day)
    if Z.cli_ok(r):
        raise H.HarnessError("initial refused reindex: expected a refusal, got " + repr((r.status, r.value, r.err[-300:])))
    s4 = B.St(path=str(p4), day=day, hist=[], guards=g4, extra={"init": "after-refused-reindex"})
    s4.key = H.digest([D.state_digest(p4, day), sorted(g4.items())])
    inits.append(s4)
    # ONE plain reindex had to write a ZID back into a page and, in the same run, saw that
    # another page had vanished (and that a new page whose notes carry ZIDs had appeared)
    p5 = Z.copy_zdir(base, tag="c06i")
    g5: dict = {}
    apply_edit(p5, "add_note_a", g5)
    apply_edit(p5, "del_page_b", g5)
    apply_edit(p5, "add_page_c", g5)
    r = Z.db_reindex(p5, day)
    if not Z.cli_ok(r):
        raise H.HarnessError("initial reindex failed: " + r.err[-500:])
    s5 = B.St(path=str(p5), day=day, hist=[], guards=g5, extra={"init": "after-write-back-and-page-changes-in-one-run"})
    s5.key = H.digest([D.state_digest(p5, day), sorted(g5.items())])
    inits.append(s5)
    return inits


def make_zone_inits(day: dt.date):
    """The indexed directory one day later, on a machine that is not on UTC."""
    out = []
    for zone in ("east-night", "west-evening"):
        zd = Z.make_zdir(BASE, "c06z")
        r = Z.db_create(zd, day)
        if not Z.cli_ok(r):
            raise H.HarnessError("zone db create failed: " + r.err[-500:])
        d = day + dt.timedelta(days=1)
        s = B.St(path=str(zd), day=d, hist=[], guards={"days": 1}, extra={"init": "indexed@" + zone, "zone": zone})
        s.key = H.digest([D.state_digest(zd, d), [("days", 1)], zone])
        out.append(s)
    return out


def make_long_init(day: dt.date):
    lz = Z.make_zdir({"a.zo": BASE["a.zo"], "sub/b.zo": BASE["sub/b.zo"], **LONG}, "c06l")
    r = Z.db_create(lz, day)
    if not Z.cli_ok(r):
        raise H.HarnessError("long-page db create failed: " + r.err[-500:])
    sl = B.St(path=str(lz), day=day, hist=[], guards={}, extra={"init": "long-page"})
    sl.key = H.digest([D.state_digest(lz, day), []])
    return sl


def run(ctx: F.Ctx):
    day = H.rotate(_DAYS, ctx.seed)[0]
    H.freeze(day)
    depth = 3 if ctx.quick else 4
    inits = make_inits(day)
    total = F.Report()
    for s in inits:
        # the two derived starting points are themselves 2 steps deep
        d = depth if s.extra["init"] in ("indexed", "pending-new-note") else depth - 1
        rep = B.search(ctx, [s], EVENTS, step, d, max_states=None if ctx.quick else 30000)
        total.merge(rep)
    meta = {
        "rule": (
            "BFS from 6 initial states (indexed four-page directory; same with a ZID-less note "
            "pending; same after an earlier stamped edit; same after a page was deleted and the "
            "index followed; same after a new page was added, the last page broken and a plain "
            "reindex refused; same after one run that wrote a ZID back, dropped a vanished page and took in a new page), "
            "plus the indexed directory one day later on a machine at UTC+2 at 00:30 and at UTC-8 at 19:30 (local calendar day != UTC calendar day; events: body edit, kind change, new note, R, Rp, D; depth one less), plus scripted sessions of ONE long-lived `zorg edit` process (7 scenarios x midnight passing in no / each session: the editor is closed with the keep-alive file in place, zorg reindexes in the same process and reopens it), plus a small directory with a 140-note page of 12 KiB whose LAST note is edited (events: that edit, a body edit, a new note, R, Rp, D), over 20 events: edit a body, change a "
            "todo's kind, add a ZID-less note, delete a note, move a note between pages whose header "
            "blocks give one property different values, add a page, delete that page again, "
            "delete a page, rename a page, bring the vanished page back byte-identical, edit title-line tags, edit a section header, drop the "
            "last holder of a tag, delete a note of a property-less page, break / repair the last page "
            "(a plain reindex is refused while it is broken), plain reindex, reindex of one explicit path (also spelled <dir>/sub/../a.zo), advance the day. "
            "Each edit is enabled a bounded number of times. Every transition copies the real "
            "directory and runs the real command in a fresh process. Oracle in every state reached "
            "by a plain reindex: raw index == raw index of a fresh db create on a copy of the files, "
            f"structural invariants of M3, and {len(QUERIES)} queries answered identically by both. Non-trivial "
            "= judged states whose history contains at least one edit."
        ),
        "bounds": {"depth": depth, "depth_from_derived_initial_states": depth - 1, "events": EVENTS, "initial_states": 6, "frozen_day": day.isoformat()},
        "assumptions": ["edits are the listed deterministic text transformations of one small directory",
                        "states reached by a path-restricted reindex are judged at the next plain reindex, as the statement says"],
        "exhaustive": True,
    }
    # the long page, in a directory of its own
    sl = make_long_init(day)
    total.merge(B.search(ctx, [sl], LONG_EVENTS, step, depth, max_states=None if ctx.quick else 30000))
    # the zones, to a smaller depth
    for sz in make_zone_inits(day):
        total.merge(B.search(ctx, [sz], ZONE_EVENTS, step, depth - 1, max_states=None if ctx.quick else 30000))
    # one long-lived `zorg edit` process that reindexes several times (the edits are made in the editor)
    from mc.checks import sessions

    total.merge(F.explore(ctx, sessions.cases(ctx), lambda c: _run_session(ctx, c), sample=sessions.sample, day=day))
    total.samples = total.samples[:4]
    return total, meta


def _run_session(ctx, case) -> F.Outcome:
    from mc.checks import sessions

    try:
        return sessions.run_case(ctx, case, {"rebuild", "index-vs-files"})
    finally:
        H.freeze(H.rotate(_DAYS, ctx.seed)[0])


def replay(case, ctx: F.Ctx) -> F.Outcome:
    """Re-run one history from its initial state without the explorer."""
    if isinstance(case, list) and case and case[0] == "session":
        return _run_session(ctx, case)
    day = H.rotate(_DAYS, ctx.seed)[0]
    H.freeze(day)
    if case["init"] == "long-page":
        inits = [make_long_init(day)]
    elif "@" in case["init"]:
        inits = make_zone_inits(day)
    else:
        inits = make_inits(day)
    try:
        st = next(s for s in inits if s.extra["init"] == case["init"])
        out = F.Outcome()
        cur = st
        made = []
        for ev in case["history"]:
            r = step(cur, ev)
            if r.state is None:
                raise H.HarnessError(f"event {ev} not enabled on replay")
            made.append(r.state.path)
            cur = r.state
            if r.problem:
                out.ok = False
                out.sig = r.problem[0]
                out.detail = r.problem[1]
                break
        for p in made:
            Z.drop(Path(p))
        return out
    finally:
        for s in inits:
            Z.drop(Path(s.path))
