"""C01 — Compiling a page yields exactly the notes written in it.

Small-scope exhaustive enumeration of abstract pages (traces of the line-event
machine of mc/models/zo_model.py), each rendered, compiled by the real
`walk_zorg_page`, and compared field by field with the notes the abstract page
denotes.
"""

from __future__ import annotations

import datetime as dt
import itertools as it

from mc.core import framework as F
from mc.core import harness as H
from mc.core import zo
from mc.models import zo_model as M

ID = "C01"
LEVEL = "model_checking"
FIELDS = ("kind", "priority", "body", "line", "zid", "create", "modify", "section", "block")

_PLAIN_POOLS = [("foo", "Foo_bar"), ("alpha", "Beta_2"), ("zeta", "Note_x")]
_ZID_POOLS = [("240311#0A", "240312#Zz9"), ("231230#k7", "240102#0a0"), ("250607#R2", "250608#ABC")]
_DAYS = [dt.date(2024, 5, 15), dt.date(2025, 3, 1), dt.date(2026, 9, 26)]


def _alpha(seed):
    plain = H.rotate(_PLAIN_POOLS, seed)[0]
    zids = H.rotate(_ZID_POOLS, seed)[0]
    words = [
        plain[0], plain[1], "o", "x", "P5",
        "240512",       # date-like
        "1230",         # time-like
        "240513#AB",    # ZID-like
        "2024-05-14",   # long-date-like
        "-",
    ]
    return plain, zids, words


M_SUFFIX = [a + b for a in "0123456789ABCDEFGH" for b in "0123456789"]
KP = [("-", None)] + [(k, p) for k in M.TODO_KINDS for p in (None, "P0", "P9")]
IDENTS = ["none", "zid", "mzid", "long", "zid-late-year", "mzid-late-year", "zid-leap-day",
          # leap days of century years that ARE leap years (divisible by 400)
          "mzid-leap-2000", "long-leap-2000", "long-leap-2400"]
TAILS = ["single", "cont", "bullet", "bullet_lookalike", "cont_ws"]


# word FORMS the grammar admits in a body (the look-alike alphabet above varies the words'
# meaning; this one varies their shape); bodies are every ordered pair of forms
FORMS = ["plain", "#tg", "@cx", "+pj", "%pe", "[[lk]]", "[[d/lk#anc]]", "[#gid]", "[^loc]", "[@rid]",
         "[240101#0E]", "k::v", "[ik:: v w]", "[ik:: v]", '"quoted words"', "'single q'", "(paren)",
         "https://ex.com/a/b?q=1", "word,", "a-b", "*", ";", "((emb))", "a::b::c"]
RICH_PREFIXES = [("-", None, "none"), ("o", "P1", "mzid"), ("x", None, "zid"), ("<", None, "long")]


def _is_written_prefix(kind, prio, ident, first_word):
    """A first body word that *is* a prefix by the format's own rule."""
    if ident == "none":
        if first_word in ("240512", "240513#AB", "2024-05-14"):
            return True
        if kind != "-" and prio is None and first_word == "P5":
            return True
    return False


def _mk_item(seed, kind, prio, ident, widx, tail):
    plain, zids, words = _alpha(seed)
    ws = [M.W(words[i]) for i in widx]
    item = M.AItem(kind=kind, priority=prio, words=ws)
    if ident == "zid":
        item.ident = ("zid", zids[0])
    elif ident == "mzid":
        item.mdate = "240401"
        item.ident = ("zid", zids[1])
    elif ident == "long":
        item.ident = ("long", "2023-11-05")
    elif ident == "zid-late-year":
        item.ident = ("zid", "691231#D4")  # two-digit years always mean 20YY
    elif ident == "zid-leap-day":
        item.mdate = "280229"
        item.ident = ("zid", "240229#L0")
    elif ident == "mzid-leap-2000":
        item.mdate = "000229"
        item.ident = ("zid", "000229#C0")
    elif ident == "long-leap-2000":
        item.ident = ("long", "2000-02-29")
    elif ident == "long-leap-2400":
        item.ident = ("long", "2400-02-29")
    elif ident == "mzid-late-year":
        item.mdate = "990101"
        item.ident = ("zid", "851224#E5")
    if tail == "cont":
        item.cont = [("  ", [M.W(plain[1]), M.W("o"), M.W("P5")])]
    elif tail == "bullet":
        item.cont = [("  * ", [M.W(plain[0])]), ("    - ", [M.W("x"), M.W(plain[1])])]
    elif tail == "cont_ws":
        # an indented line that holds only blanks, between two continuation lines
        item.cont = [("  ", [M.W(plain[1])]), ("   ", []), ("  * ", [M.W("x"), M.W(plain[0])])]
    elif tail == "bullet_lookalike":
        item.cont = [("  * ", [M.W("240512"), M.W("x")]), ("  ", [M.W("240513#AB")])]
    return item


def _reduced_items(seed):
    """24 items: every kind x {bare, fully prefixed} + multi-line + look-alike bodies."""
    out = []
    for kind in M.ALL_KINDS:
        out.append((kind, None, "none", [0], "single"))
        out.append((kind, "P1" if kind != "-" else None, "mzid", [1, 4], "single"))
    for kind in ("-", "o", "x"):
        out.append((kind, None, "zid", [2, 5], "cont"))
        out.append((kind, "P7" if kind != "-" else None, "long", [7, 3], "bullet_lookalike"))
    for kind in ("o", "<", ">"):
        out.append((kind, "P0", "none", [6, 8], "bullet"))
    for kind in ("-", "~", "x"):
        out.append((kind, None, "none", [3, 9], "single"))
    assert len(out) == 24
    return out


LAYOUTS = ["same_block", "two_blocks", "comment_between", "second_under_h1", "deep", "bodyless_between", "h2_first"]
LONG_LAYOUT = "long_page"


class RawLine(M.AComment):
    """A literal non-note line inside a block."""

    def __init__(self, text):
        super().__init__([])
        self.text = text

    def lines(self):
        return [self.text]


def _page_multi(seed, layout, specs):
    plain, zids, words = _alpha(seed)
    items = [_mk_item(seed, *s) for s in specs]
    # distinct ZIDs per position so identity is unambiguous
    for n, itm in enumerate(items):
        if itm.ident[0] == "zid":
            z = itm.ident[1]
            itm.ident = ("zid", z[:-1] + "ABC"[n % 3] if len(items) <= 3 else z[:7] + M_SUFFIX[n % len(M_SUFFIX)])
    page = M.APage(title=[M.W("page"), M.W("title")])
    if layout == LONG_LAYOUT:
        # many items: line numbers with two and three digits; a section with a
        # child section is followed by a sibling section (file order != level order)
        q = max(1, len(items) // 4)
        parts = [items[:q], items[q:2 * q], items[2 * q:3 * q], items[3 * q:]]
        page.top_blocks = [parts[0]]
        mid = [parts[1][:6], parts[1][6:]] if len(parts[1]) > 6 else [parts[1]]
        page.sections = [M.ASection(1, [M.W("Mid")], [b for b in mid if b]),
                         M.ASection(2, [M.W("Low"), M.W("er")], [parts[2]]),
                         M.ASection(1, [M.W("Tail")], [parts[3]])]
        page.sections = [s_ for s_ in page.sections if any(s_.blocks)]
        return page
    if layout == "same_block":
        page.top_blocks = [items]
    elif layout == "two_blocks":
        page.top_blocks = [[i] for i in items]
    elif layout == "comment_between":
        blk = []
        for n, i in enumerate(items):
            if n:
                blk.append(M.AComment([M.W("o"), M.W("P1"), M.W("240101#ZZ"), M.W("comment")]))
            blk.append(i)
        page.top_blocks = [blk]
    elif layout == "bodyless_between":
        # an item line without any body text ('o P1 ', 'x P9 ', '- ') is valid and is
        # not a note; it must not influence the items around it
        blk = []
        for n, i in enumerate(items):
            if n:
                blk.append(RawLine(["o P1 ", "x P9 ", "- ", "< P0 ", "~ "][(n + len(items[0].words)) % 5]))
            blk.append(i)
        page.top_blocks = [blk]
    elif layout == "second_under_h1":
        page.top_blocks = [[items[0]]]
        page.sections = [M.ASection(1, [M.W("Sec"), M.W("x")], [items[1:]], gap_after_header=0)]
    elif layout == "h2_first":
        # the body opens directly with an H2 section (no loose item, no H1 above it);
        # an H3 below it; an H1 only afterwards
        secs = [M.ASection(2, [M.W("Lead")], [[items[0]]]), M.ASection(3, [M.W("Sub")], [[items[1]]])]
        if len(items) > 2:
            secs.append(M.ASection(1, [M.W("Late")], [items[2:]]))
        page.sections = secs
    elif layout == "deep":
        page.top_blocks = [[items[0]]]
        secs = [M.ASection(lv, [M.W(f"L{lv}")], []) for lv in (1, 2, 3, 4)]
        secs[3].blocks = [[items[1]]]
        if len(items) > 2:
            secs[1].blocks = []
            secs.append(M.ASection(2, [M.W("Later")], [items[2:]]))
        page.sections = secs
    return page


def _build(ctx, case):
    kind = case[0]
    if kind == "single":
        _, k, p, ident, widx, tail, gap = case
        item = _mk_item(ctx.seed, k, p, ident, widx, tail)
        page = M.APage(title=[M.W("t")], top_blocks=[[item]], gap_after_head=gap)
        return page
    if kind == "mdate-only":
        # the item has a modify date but no ZID of its own; symbol-only words and then a
        # ZID-shaped word follow - that word is body, not identity
        _, k, p, syms, tail_word = case
        item = _mk_item(ctx.seed, k, p, "none", [0], "single")
        item.mdate = "240105"
        item.words = [M.W(w) for w in syms] + [M.W(tail_word), M.W("moved"), M.W("there")]
        other = _mk_item(ctx.seed, "-", None, "none", [1], "single")
        return M.APage(title=[M.W("t")], top_blocks=[[item, other]])
    if kind == "spaced":
        # two blanks between the kind/priority prefix and the rest of the first line
        _, k, p, ident, widx = case
        item = _mk_item(ctx.seed, k, p, ident, widx, "single")
        item.sep = "  "
        other = _mk_item(ctx.seed, "-", None, "none", [1], "single")
        return M.APage(title=[M.W("t")], top_blocks=[[item, other]])
    if kind == "firstword":
        # a first body word that looks like a relative date spec (or another unit-suffixed number);
        # it is a word, and whatever follows it is body as well
        _, k, p, first, second = case
        item = _mk_item(ctx.seed, k, p, "none", [0], "single")
        item.words = [M.W(first), M.W(second), M.W("tail")]
        other = _mk_item(ctx.seed, "-", None, "none", [1], "single")
        return M.APage(title=[M.W("t")], top_blocks=[[item, other]])
    if kind == "rich":
        _, pi, a, b, lead = case
        k, p, ident = RICH_PREFIXES[pi]
        item = _mk_item(ctx.seed, k, p, ident, [0], "single")
        toks = (["lead"] if lead else []) + FORMS[a].split(" ") + FORMS[b].split(" ") + ["end"]
        item.words = [M.W(t) for t in toks]
        other = _mk_item(ctx.seed, "-", None, "none", [1], "single")
        return M.APage(title=[M.W("t")], top_blocks=[[item, other]])
    _, layout, idxs = case
    red = _reduced_items(ctx.seed)
    return _page_multi(ctx.seed, layout, [red[i] for i in idxs])


def _run_case(ctx, case) -> F.Outcome:
    day = H.rotate(_DAYS, ctx.seed)[0]
    page = _build(ctx, case)
    text, _ = M.render(page)
    trace: list = []
    want = M.expected_notes(page, day, trace)
    got = zo.compile_text(text)
    out = F.Outcome()
    out.transitions = len(trace)
    # model states: section stack x carried todo defaults of the previous item
    prev = None
    st = []
    flat_items = [i for b in page.top_blocks for i in b if isinstance(i, M.AItem)]
    for s in page.sections:
        flat_items += [i for b in s.blocks for i in b if isinstance(i, M.AItem)]
    ii = 0
    for key, ev in trace:
        if ev == "item":
            cur = flat_items[ii]
            ii += 1
            st.append(H.digest([key, prev, (cur.kind, cur.priority, cur.ident[0], bool(cur.mdate))]))
            prev = (cur.kind, cur.priority, cur.ident[0], bool(cur.mdate))
        else:
            st.append(H.digest([key, prev, ev]))
    out.states = tuple(st)
    problem = None
    if got["exc"]:
        problem = {"what": "compiler-raised", "exc": got["exc"]}
        sig = "exception:" + got.get("exc_type", "?") + "@" + got.get("exc_frame", "?")
    elif got["nsyntax"] or got["has_errors"]:
        problem = {"what": "valid-page-rejected", "nsyntax": got["nsyntax"], "has_errors": got["has_errors"]}
        sig = "valid-page-rejected"
    else:
        # an item without body text is not a note; should an implementation
        # emit an empty-bodied note for it, that is not judged here
        observed = [n for n in got["notes"] if n["body"].strip() != ""]
        d = M.diff_notes(want, observed, FIELDS)
        if d:
            problem = d
            sig = "note-field:" + d["what"]
        elif got.get("flat") != [[n["zid"], n["line"]] for n in got["notes"]]:
            problem = {"what": "Page.notes is not in file order", "page_notes": got.get("flat"),
                       "file_order": [[n["zid"], n["line"]] for n in got["notes"]]}
            sig = "page-notes-not-in-file-order"
    out.obs = H.digest([got["exc"], got["nsyntax"], [[n.get(f) for f in FIELDS] for n in got["notes"]]])
    multi = case[0] != "single"
    lookalike = any(
        w[1] in ("o", "x", "P5", "240512", "1230", "240513#AB", "2024-05-14", "-")
        for i in flat_items for w in i.all_words() if w[0] == "w"
    )
    if multi or lookalike:
        out.nontrivial = H.digest(case)
    if problem:
        out.ok = False
        out.sig = sig
        out.detail = {"page": text, "day": day.isoformat(), "problem": problem,
                      "expected": want, "observed": got["notes"]}
    return out


def _cases(ctx):
    nwords = 2 if ctx.quick else 3
    cases = []
    for (k, p) in KP:
        for ident in IDENTS:
            for n in range(1, nwords + 1):
                if "leap-2" in ident and n > 1 and ctx.quick:
                    continue
                for widx in it.product(range(10), repeat=n):
                    _, _, words = _alpha(ctx.seed)
                    if _is_written_prefix(k, p, ident, words[widx[0]]):
                        continue
                    for tail in TAILS:
                        if ctx.quick and n == 2 and tail in ("cont", "bullet", "cont_ws"):
                            continue
                        gap = 1 if (len(cases) % 5) else 2
                        cases.append(["single", k, p, ident, list(widx), tail, gap])
    n_single = len(cases)
    reps = 2 if ctx.quick else 3
    for layout in LAYOUTS:
        for idxs in it.product(range(24), repeat=reps):
            cases.append(["multi", layout, list(idxs)])
        if not ctx.quick:
            for idxs in it.product(range(24), repeat=2):
                cases.append(["multi", layout, list(idxs)])
    for (k, p) in KP:
        for ident in ("none", "zid", "mzid", "long"):
            for widx in ([0], [4, 1]):
                cases.append(["spaced", k, p, ident, widx])
    for (k, p) in [("-", None), ("o", "P1"), ("x", None)]:
        for syms in (["->"], ["*", "|"], ["-"], ["plain"], ["->", "-", "*"]):
            for tail_word in ("240101#AB", "240102#CD0", "2024-01-01", "240103"):
                cases.append(["mdate-only", k, p, syms, tail_word])
    # every ordered pair of word forms as (part of) a body
    for pi in range(len(RICH_PREFIXES)):
        for a in range(len(FORMS)):
            for b in range(len(FORMS)):
                if ctx.quick and (a + b + pi) % 2:
                    continue
                cases.append(["rich", pi, a, b, (a + b) % 3 != 0])
    for (k, p) in KP:
        for first in ("5m", "10d", "1y", "3Y", "0d", "2D", "12h", "1w", "2024", "7"):
            for second in ("jog", "240203#AB", "2024-02-03", "240203"):
                cases.append(["firstword", k, p, first, second])
    # long pages: every rotation of the 24-item alphabet, repeated 1x, 2x and 5x
    for rot in range(24):
        for rep in ((1, 2) if ctx.quick else (1, 2, 5)):
            idxs = [(rot + k) % 24 for k in range(24)] * rep
            cases.append(["multi", LONG_LAYOUT, idxs])
    return cases, n_single


def _sample(ctx, case):
    page = _build(ctx, case)
    text, _ = M.render(page)
    return {"case": case, "page_text": text}


def run(ctx: F.Ctx):
    cases, n_single = _cases(ctx)
    day = H.rotate(_DAYS, ctx.seed)[0]
    rep = F.explore(ctx, cases, lambda c: _run_case(ctx, c), sample=lambda c: _sample(ctx, c),
                    day=day, twice_every=501)
    meta = {
        "rule": (
            "single-item pages: kind/priority in 16 combinations x identity in {none, ZID, "
            "modify-date+ZID, long create date, ZID and modify date with year parts 69-99} x body of 1..N words over 10 words (2 plain + "
            "o, x, P5, date-like, time-like, ZID-like, long-date-like, '-') x tail in {single, "
            "continuation line, bullets, bullets starting with look-alikes} (quick: 2-word bodies "
            "with tails {single, look-alike bullets} only), minus first words "
            "that are prefixes by the format's own rule; multi-item pages: all ordered "
            "pairs (quick) / pairs and triples (thorough) of a 24-item reduced alphabet in 5 "
            "layouts (same block, two blocks, in-block comment between, second under a new H1, "
            "under H1>H2>H3>H4, an item line without body text between the items), plus long pages (24, 48, 120 items over several blocks and sections, "
            "line numbers up to three digits), plus items whose body is every ordered pair of 24 word FORMS (tags, the link kinds, "
            "properties, inline properties, quoted and parenthesised words, a URL, punctuation) under 4 prefixes. Section path and block index of every note are compared too. Each page is a trace of the line-event machine; model states = "
            "(section stack, previous item's prefix shape, event). Non-trivial = multi-item page "
            "or a body containing a prefix look-alike."
        ),
        "bounds": {"max_body_words": 2 if ctx.quick else 3, "single_item_pages": n_single,
                   "multi_item_pages": len(cases) - n_single, "frozen_day": day.isoformat()},
        "assumptions": [
            "generated parser as committed (the .g4 cannot be recompiled here)",
            "words outside the 10-word alphabet only by the small-scope hypothesis",
        ],
        "exhaustive": True,
    }
    return rep, meta


def replay(case, ctx: F.Ctx) -> F.Outcome:
    H.freeze(H.rotate(_DAYS, ctx.seed)[0])
    return _run_case(ctx, list(case))
