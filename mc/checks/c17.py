"""C17 — `action open` offers and opens exactly the link targets on the line.

Lines are enumerated from (prefix x target sequence x wrapper); they live in a
.zo and a .zoq page of a directory indexed by the real `db create`.  The real
`zorg action open PATH LINE [IDX]` is run for every option index; its stdout and
exit code are compared with an independent scanner/resolver, and option k is
checked differentially against a line that holds only the k-th target.
"""

from __future__ import annotations

import contextlib
import datetime as dt
import io
import itertools as it
import re

from mc.core import framework as F
from mc.core import harness as H
from mc.core import zdir as Z
from mc.models import index_reader as IR

ID = "C17"
LEVEL = "exploration"
DAY = dt.date(2024, 5, 15)
PRIMARY = "240501#PR"

BASE = {
    # decoys: notes that own an ID / RID of their own and merely carry the looked-up values
    # under other keys
    "p.zo": "# P page\n\n- 240101#P1 a note on p\n- 240108#P8 decoy ID::other see::gid RID::otherrid src::rid1 also::sid\n",
    # the first note of p.zo was also pasted into sub/q.zo: 240101#P1 has two owners, either page will do
    "sub/q.zo": "# Q page\n\n- 240102#Q1 a note on q\n  * LID::anc\n- 240103#Q2 owner of gid ID::gid\n- 240101#P1 a note on p\n",
    "r.zo": "# R page\n\n- 240104#R1 owner of rid RID::rid1\n- 240105#R2 zid target two\n\n"
            + "#" * 32 + " Project ID::sid\n\n- 240106#R3 first under the project\no 240107#R4 second under the project\n",
}
# target kinds: text on the line, and what it must resolve to
TARGETS = {
    "page": "[[p]]",
    "anchor": "[[sub/q#anc]]",
    "local": "[^loc]",
    "gid": "[#gid]",
    "rid": "[@rid1]",
    "zid": "240105#R2",
    "zidlink": "[240101#P1]",
    "sid": "[#sid]",
}
TKEYS = list(TARGETS)
PREFIXES = [
    ("none", ""), ("note", "- "), ("open", "o "), ("prio", "o P1 "), ("done-dated", "x 240601 "),
    ("note+zid", f"- {PRIMARY} "), ("prio+zid", f"o P2 {PRIMARY} "), ("stamped+zid", f"o P3 240502 {PRIMARY} "),
    ("comment", "# "), ("bullet", "  * "), ("bullet2", "    - "), ("done+zid", f"x {PRIMARY} "),
    # two blanks inside the prefix: the primary ZID is still the primary ZID
    ("spaced+zid", f"-  {PRIMARY} "), ("spaced-prio+zid", f"o P2  {PRIMARY} "),
    # a new item (no ZID yet) whose FIRST word is the first target ("\x01": no leading 'see')
    ("note-direct", "- \x01"), ("prio-direct", "o P1 \x01"), ("dated-direct", "x 240601 \x01"),
    # a new item whose first BODY word is made of kind characters or of punctuation only: it is a word,
    # so a bare ZID right after it is a reference (a target), not the item's own ZID
    ("note+ox", "- ox \x01"), ("note+<>", "- <> \x01"), ("note+dots", "- ... \x01"), ("todo+x~", "o P1 x~ \x01"),
    ("note+colon", "- : \x01"),
]
WRAPPERS = ["bare", "trail", "paren", "quote", "iprop"]


def wrap(text: str, w: str, k: int) -> str:
    if w == "bare":
        return text
    if w == "trail":
        return text + ".,)"[k % 3]
    if w == "iprop":
        # the target is the value of an inline property: [see:: [[p]]]
        if not text.startswith("["):
            return text
        return "[see:: " + text + "]"
    if w == "quote":
        # quotes / angle brackets around a bracketed target (a bare ZID in quotes is
        # not obviously a ZID reference, so it stays bare)
        if not text.startswith("["):
            return text
        a, b = [('"', '"'), ("'", "'"), ("<", ">")][k % 3]
        return a + text + b
    return "(" + text + ")"


def _whole_line(pname: str) -> bool:
    return pname == "adjacent-zids" or pname.startswith("special:")


def build_line(prefix: str, seq, wrapper: str) -> str:
    """prefix + 'see' + targets separated by plain words."""
    direct = prefix.endswith("\x01")
    prefix = prefix.rstrip("\x01")
    parts = [] if direct else ["see"]
    for k, t in enumerate(seq):
        parts.append(wrap(TARGETS[t], wrapper, k))
        parts.append("and" if k % 2 == 0 else "also")
    return prefix + " ".join(parts)


def expected_for_target(zd, t: str, owners: dict) -> tuple[list[str], int]:
    """(stdout line prefixes to match, exit code)."""
    if t == "page":
        return [f"EDIT {zd}/p.zo"], 0
    if t == "anchor":
        return [f"EDIT {zd}/sub/q.zo", "SEARCH LID::anc"], 0
    if t == "local":
        return ["SEARCH LID::loc"], 0
    if t == "gid":
        return [f"EDIT {zd}/{owners['gid']}", "SEARCH ID::gid"], 0
    if t == "sid":
        return [f"EDIT {zd}/r.zo", "SEARCH ID::sid"], 0
    if t == "rid":
        return [f"EDIT {zd}/{owners['rid']}", "SEARCH RID::rid1"], 0
    if t == "zid":
        return [_edit(zd, owners, "240105#R2"), "SEARCH "], 0
    if t == "zidlink":
        return [_edit(zd, owners, "240101#P1"), "SEARCH "], 0
    raise ValueError(t)


def _edit(zd, owners, zid):
    """The EDIT line(s) that open the page of an owner of `zid` (a tuple: str.startswith takes one)."""
    return tuple(f"EDIT {zd}/{page}" for page in owners[zid])


_ENV: dict = {}


def _env(ctx):
    if _ENV:
        return _ENV
    H.freeze(DAY)
    quick = ctx.quick
    maxlen = 2 if quick else 3
    prefixes = PREFIXES if not quick else [p for i, p in enumerate(PREFIXES)
                                           if i % 2 == ctx.seed % 2 or p[0].endswith("+zid")]
    seqs = [()]
    for n in range(1, maxlen + 1):
        seqs += list(it.product(TKEYS, repeat=n))
    specs = []
    for (pname, ptxt) in prefixes:
        for seq in seqs:
            wrappers = WRAPPERS if (len(seq) <= 2 or not quick) else ["bare"]
            if quick and len(seq) == 2:
                wrappers = [WRAPPERS[(TKEYS.index(seq[0]) + TKEYS.index(seq[1])) % len(WRAPPERS)]]
            for w in wrappers:
                if not seq and w != "bare":
                    continue
                if pname.endswith("-direct") and (not seq or seq[0] == "zid"):
                    continue  # a bare ZID right after the prefix IS the item's own ZID
                specs.append((pname, ptxt, list(seq), w))
    # reference lines: each single target alone after an ordinary word
    ref_start = len(specs)
    for t in TKEYS:
        specs.append(("ref", "", [t], "bare"))
    # a non-primary ZID directly after the primary one (no word in between)
    specs.append(("adjacent-zids", f"- {PRIMARY} 240105#R2 tail", [], "bare"))
    # whole lines with the PROMPT they must be answered with: a bare ZID right after a link word of a
    # new item (the compiler gives that item a ZID of its own, so this one is a reference), and two
    # bare ZIDs at the start of a continuation line
    specs.append(("special:link-then-zid", "- [[p]] 240105#R2 tail", "PROMPT [[p]] 240105#R2", "bare"))
    specs.append(("special:gid-then-zid", "o P1 [#gid] 240105#R2 tail", "PROMPT [#gid] 240105#R2", "bare"))
    specs.append(("special:two-zids-on-a-continuation-line", "  240105#R2 240104#R1 are related", "PROMPT 240105#R2 240104#R1", "bare"))
    lines = []
    for pname, ptxt, seq, w in specs:
        lines.append(build_line(ptxt, seq, w) if not _whole_line(pname) else ptxt)
    # U+2028 / form feed / vertical tab are not line breaks of a page
    header = "# CUR page \u2028 with \x0c odd \x0b separators\n\n"
    # the page the lines are on also holds notes whose three-character ZIDs BEGIN with the
    # two-character ZIDs the lines refer to (those are owned by other pages)
    decoys = "\n- 240105#R2A a note of this page\n- 240101#P1A another one\no P1 240502 240105#R2B third\n"
    cur = header + "\n".join(lines) + "\n" + decoys
    files = dict(BASE)
    files["cur.zo"] = "# unindexed helper, see lines\n"
    zd = Z.make_zdir(BASE, "c17")
    r = Z.db_create(zd, DAY)
    if not Z.cli_ok(r):
        raise H.HarnessError("c17 setup failed " + r.err[-300:])
    (zd / "cur.zo").write_text(cur)
    (zd / "zoq").mkdir()
    (zd / "zoq" / "cur.zoq").write_text("# W = not a query line\n\n" + "\n".join(lines) + "\n")
    idx = IR.read_index(zd)
    owners = {}
    for n in idx["notes"]:
        owners.setdefault(n["zid"], [])
        if n["page"] not in owners[n["zid"]]:
            owners[n["zid"]].append(n["page"])
        if n["props"].get("ID") == "gid":
            owners["gid"] = n["page"]
        if n["props"].get("RID") == "rid1":
            owners["rid"] = n["page"]
    cfg = zd.parent / "cfg.yml"
    H.write_config(cfg)
    _ENV.update({"zd": zd, "specs": specs, "first_line": 3, "owners": owners, "cfg": cfg, "ref_start": ref_start})
    return _ENV


def run_open(env, rel: str, line_no: int, opt, via_cli=False):
    args = ["action", "open", rel, str(line_no)] + ([str(opt)] if opt is not None else [])
    if via_cli:
        r = H.run_cli(env["zd"], *args, cfg=env["cfg"], day=DAY)
        return (r.out, r.value if r.status == "ok" else f"{r.status}:{r.exc}")
    from zorg.app.__main__ import main

    buf = io.StringIO()
    argv = ["zorg", "-c", str(env["cfg"]), "--log=null", "--dir", str(env["zd"]), *args]
    try:
        with contextlib.redirect_stdout(buf):
            code = main(argv)
    except SystemExit as e:
        code = f"sysexit:{e.code}"
    except Exception as e:  # noqa: BLE001
        code = f"exc:{type(e).__name__}: {e}"
    return buf.getvalue(), code


def model_targets(pname: str, seq, is_zoq: bool):
    """Ordered targets the line offers: the written sequence; in a .zoq page the
    primary ZID is a target as well (it comes first on the line)."""
    out = list(seq)
    has_primary = pname.endswith("+zid")
    if has_primary and is_zoq:
        out = ["primary"] + out
    return out


def _check_lines(out: str):
    bad = [l for l in out.split("\n") if l and not re.match(r"^(EDIT|SEARCH|PROMPT|ECHO) ", l)]
    return bad


def _run_case(ctx, case) -> F.Outcome:
    env = _env(ctx)
    si, is_zoq, opt = case
    pname, ptxt, seq, w = env["specs"][si]
    rel = "zoq/cur.zoq" if is_zoq else "cur.zo"
    line_no = env["first_line"] + si
    H.freeze(DAY)
    out = F.Outcome()
    got_out, got_code = run_open(env, rel, line_no, opt)
    problems = []
    bad = _check_lines(got_out)
    if bad:
        problems.append(("non-protocol-output", {"lines": bad}))
    zd = env["zd"]
    if pname.startswith("special:"):
        if got_out != seq + "\n" or got_code != 0:
            problems.append(("targets-of-the-line-not-offered:" + pname[8:], {"expected": seq, "stdout": got_out, "exit": got_code}))
        return _finish(out, case, env, got_out, got_code, problems)
    if pname == "adjacent-zids":
        # the second ZID is not the primary one, so it is a target
        if not got_out.startswith(_edit(zd, env["owners"], "240105#R2")):
            problems.append(("non-primary-zid-right-after-primary-not-offered", {"stdout": got_out, "exit": got_code}))
        return _finish(out, case, env, got_out, got_code, problems)
    targets = model_targets(pname, seq, is_zoq)
    n = len(targets)

    def text_of(t):
        return PRIMARY if t == "primary" else TARGETS[t]

    def shown(t):
        # what the PROMPT lists: the word without surrounding punctuation; ZIDs without brackets
        s = text_of(t)
        return s.strip("[]") if t in ("zid", "zidlink", "primary") else s

    lines = [l for l in got_out.split("\n") if l]
    if n == 0:
        if not (len(lines) == 1 and lines[0].startswith("ECHO ")) or got_code != 0:
            problems.append(("no-target-line-not-answered-with-ECHO", {"stdout": got_out, "exit": got_code}))
    elif n >= 2 and opt is None:
        want = "PROMPT " + " ".join(shown(t) for t in targets)
        if lines != [want] or got_code != 0:
            problems.append(("prompt-does-not-list-the-targets-in-order", {"expected": want, "stdout": got_out, "exit": got_code}))
    else:
        # which target must be opened
        if n == 1 and opt is None:
            k = 0
        elif opt == -1:
            k = n - 1
        elif opt is not None and 1 <= opt <= n:
            k = opt - 1
        else:
            k = None
        if n == 1 and opt is not None:
            k = 0  # a single target is opened directly whatever index is passed
        if k is None:
            if got_code == 0 or any(l.startswith("EDIT ") for l in lines):
                problems.append(("out-of-range-option-not-rejected", {"stdout": got_out, "exit": got_code, "option": opt, "n": n}))
        else:
            t = targets[k]
            if t == "primary":
                exp_lines, exp_code = [f"EDIT {zd}/", "SEARCH "], None  # unindexed ZID: resolution unspecified
                if not any(l.startswith(("EDIT", "SEARCH")) for l in lines) and got_code == 0:
                    pass
            else:
                exp_lines, exp_code = expected_for_target(zd, t, env["owners"])
                if got_code != exp_code or len(lines) != len(exp_lines) or any(
                        not l.startswith(e) for l, e in zip(lines, exp_lines)):
                    problems.append((f"wrong-thing-opened:{t}", {"expected_prefixes": exp_lines, "stdout": got_out,
                                                                 "exit": got_code, "option": opt, "targets": targets}))
                # differential: same as a line holding only that target
                ref_si = env["ref_start"] + TKEYS.index(t)
                ref_out, ref_code = run_open(env, "cur.zo", env["first_line"] + ref_si, None)
                if (ref_out, ref_code) != (got_out, got_code):
                    problems.append(("option-differs-from-single-target-line", {
                        "option": opt, "target": text_of(t), "stdout": got_out, "exit": got_code,
                        "single_target_stdout": ref_out, "single_target_exit": ref_code}))
    return _finish(out, case, env, got_out, got_code, problems)


def _finish(out, case, env, got_out, got_code, problems):
    si, is_zoq, opt = case
    pname, ptxt, seq, w = env["specs"][si]
    out.obs = H.digest([got_out.replace(str(env["zd"]), "<zdir>"), got_code])
    if len(seq) >= 1 or pname == "adjacent-zids":
        out.nontrivial = H.digest(case)
    if problems:
        line = build_line(ptxt, seq, w) if not _whole_line(pname) else ptxt
        out.ok = False
        out.sig = problems[0][0]
        out.detail = {"file": "zoq/cur.zoq" if is_zoq else "cur.zo", "line": line, "option": opt,
                      "problem": problems[0][1], "all": [p[0] for p in problems]}
    return out


def _cases(ctx):
    env = _env(ctx)
    cases = []
    for si, (pname, ptxt, seq, w) in enumerate(env["specs"]):
        for is_zoq in (False, True):
            if pname in ("ref",) and is_zoq:
                continue
            if _whole_line(pname):
                if not is_zoq:
                    cases.append([si, False, None])
                continue
            n = len(model_targets(pname, seq, is_zoq))
            opts = [None]
            if n >= 2:
                opts += list(range(1, n + 1)) + [-1, n + 1, 0]
            elif n == 1 and not ctx.quick:
                opts += [1, -1]
            for o in opts:
                cases.append([si, is_zoq, o])
    return cases


def _sample(ctx, case):
    env = _env(ctx)
    pname, ptxt, seq, w = env["specs"][case[0]]
    return {"file": "zoq/cur.zoq" if case[1] else "cur.zo",
            "line": build_line(ptxt, seq, w) if not _whole_line(pname) else ptxt, "option_index": case[2]}


def run(ctx: F.Ctx):
    H.freeze(DAY)
    try:
        cases = _cases(ctx)
        env = _env(ctx)
        # a sample through a real forked CLI process must agree with the in-process calls
        rep = F.explore(ctx, cases, lambda c: _run_case(ctx, c), sample=lambda c: _sample(ctx, c), day=DAY,
                        twice_every=211)
        agree = 0
        for c in cases[:: max(1, len(cases) // 25)]:
            si, is_zoq, opt = c
            rel = "zoq/cur.zoq" if is_zoq else "cur.zo"
            a = run_open(env, rel, env["first_line"] + si, opt, via_cli=True)
            b = run_open(env, rel, env["first_line"] + si, opt, via_cli=False)
            if a != b:
                raise H.HarnessError(f"in-process and forked CLI disagree on {c}: {a} vs {b}")
            agree += 1
        rep.add_counter("forked_cli_agrees_with_in_process", agree)
        nlines = len(env["specs"])
    finally:
        if _ENV:
            Z.drop(_ENV["zd"])
            _ENV.clear()
    meta = {
        "rule": (
            "lines = prefix (none, -, o, o P1, x YYMMDD, the same with a primary ZID, stamped + ZID, "
            "comment, two bullet indents) x target sequences of length 0.."
            f"{2 if ctx.quick else 3} over 7 target kinds ([[p]], [[sub/q#anc]], [^loc], [#gid], "
            "[@rid1], a bare non-primary ZID, [ZID]) separated by plain words x wrapper (bare, "
            "trailing punctuation, parentheses), in a .zo and a .zoq page; option index in {absent, "
            "1..n, -1, n+1, 0}. Oracle: only EDIT/SEARCH/PROMPT/ECHO lines; 0 targets => ECHO; >= 2 "
            "without index => PROMPT listing the targets in line order (primary ZID offered only in "
            ".zoq); a chosen target opens what its kind resolves to (page path under the notes dir, "
            "anchor search, page owning the ID/RID/ZID according to the raw index) and gives exactly "
            "the stdout/exit code of a line holding only that target; out-of-range index => non-zero "
            "exit, no EDIT. Non-trivial = the line has at least one target."
        ),
        "bounds": {"lines": nlines, "cases": len(cases)},
        "assumptions": ["named-URL ([!x]) and z:: cite-key targets open external programs and are not driven",
                        "calls are made in-process (main(argv) with stdout captured); a sample is cross-checked against forked CLI processes"],
        "exhaustive": True,
    }
    return rep, meta


def replay(case, ctx: F.Ctx) -> F.Outcome:
    try:
        return _run_case(ctx, list(case))
    finally:
        if _ENV:
            Z.drop(_ENV["zd"])
            _ENV.clear()
