"""C14 — `file rename` retargets every link to the page and nothing else.

(A, B) pairs x every small subset of a set of link texts confusable with A,
written into .zo / .zot / .zoq files at top level and in a sub-directory; the
real `zorg file rename A B` is run and every byte of every file is compared with
an independent link-token rewrite.
"""

from __future__ import annotations

import itertools as it
import re

from mc.core import framework as F
from mc.core import harness as H
from mc.core import zdir as Z
from mc.core import zo

ID = "C14"
LEVEL = "exploration"
_POOLS = [("foo", "bar"), ("alpha", "omega"), ("pg1", "nu_2")]

_LINK = re.compile(r"\[\[([^\[\]]*)\]\]")


def pairs(seed):
    a, b = H.rotate(_POOLS, seed)[0]
    return [
        (a, b),
        (a, a + "2"),              # B extends A
        (f"{a}_{b}", a),           # A extends B
        (f"dir/{a}", f"dir/{b}"),  # inside a sub-directory
        (a, f"dir/{a}"),           # into a sub-directory
        (f"{a}.zo", f"{b}.zo"),    # names given with extension
        (a, f"{b}.zo"),            # only the new name given with extension
        (f"{a}.zo", b),            # only the old name given with extension
        ("todo.zo", "tasks.zo"),   # base name ends in characters of the extension
        ("zoo", "buzz"),
        (f"ABS:{a}.zo", f"ABS:{b}.zo"),  # absolute paths under the notes directory
        # names that are not in Unicode normal form C (a base letter and a combining accent, the
        # Angstrom sign): the bytes given on the command line are the name, in the link as on disk
        ("cafe\u0301", b),
        (a, "r\u212bsume\u0301"),
    ]


def link_name(x: str) -> str:
    x = x[4:] if x.startswith("ABS:") else x
    return x[:-3] if x.endswith(".zo") else x


def confusables(A: str, B: str):
    a = link_name(A)
    b = link_name(B)
    return [
        f"[[{a}]]", f"[[{a}#anc]]", f"[[{a}]] and [[{a}]]", f"[[{a}x]]", f"[[x{a}]]", f"[[{a}/sub]]",
        f"[[up/{a}]]", f"[[{a}.zo]]", f"[{a}]", f"[[ {a}]]", f"(({a}))", f"{a}", f"[[{b}]]",
    ]


def model_rewrite(text: str, A: str, B: str) -> str:
    a, b = link_name(A), link_name(B)

    def sub(m):
        name = m.group(1)
        if name == a:
            return f"[[{b}]]"
        if name.startswith(a + "#"):
            return f"[[{b}{name[len(a):]}]]"
        return m.group(0)

    return _LINK.sub(sub, text)


def build(seed, pi, subset):
    A, B = pairs(seed)[pi]
    els = [confusables(A, B)[i] for i in subset]
    note_lines = "".join(f"- 2401{n + 1:02d}#L{n} see {e} here\n" for n, e in enumerate(els))
    joined = "- 240120#LJ all " + " ".join(els) + " end\n" if els else ""
    page = "# page\n\n" + note_lines + joined
    a_rel = link_name(A) + ".zo"
    files = {
        a_rel: "# the renamed page itself\n\n" + note_lines,
        "other.zo": page,
        "deep/er/inner.zo": page,
        "deep/other.zo": page,            # same file name as the top-level page
        "deep/er/other.zo": "# third page with that name\n\n" + note_lines,
        "deep/saved.zoq": "# W #u\n#\n" + note_lines,
        "tmpl.zot": "# template\n\n## {{ name }}\n\n" + note_lines + joined,
        "zoq/saved.zoq": "# W #t\n#\n" + note_lines,
        "unrelated.txt": "not a zorg file " + " ".join(els) + "\n",
        "endings/utf8.zo": "# caf\u00e9 \u2014 \u2713 page\n\n" + note_lines + joined + "- 240121#LU last line \u2713 of the page\n",
        # a page saved as ISO-8859-1 (the lone surrogate stands for the raw byte 0xE9): not valid UTF-8
        "endings/latin1.zo": "# caf\udce9 page\n\n" + note_lines + joined + "- 240122#LV last line caf\udce9\n",
        # not z-files either, although '.zo' occurs in their names
        "other.zo~": page, "notes.zox": page, "deep/inner.zo.bak": page, "deep/.hidden.zo.tmp": page,
        # bytes a line-by-line rewrite would normalise: no final newline, two final
        # newlines, a form feed, a carriage return, a Unicode line separator
        "endings/nonl.zo": ("# no final newline\n\n" + note_lines + joined).rstrip("\n"),
        "endings/twonl.zo": "# two final newlines\n\n" + note_lines + "\n",
        "endings/odd.zot": "# odd separators\n\n" + note_lines.replace(" here\n", " here\x0c\n", 1) + "tail\r\nlast\u2028line\n",
    }
    return A, B, files


_BOUNDARIES = (4096, 8192, 65536, 131072)


def _big_text(link: str, off: int) -> str:
    """An ASCII page in which `link` starts exactly at byte offset `off`."""
    head, pre, unit = "# big page\n\n", "- 240101#L0 see ", "- 240101#F0 filler line of the journal\n"
    need = off - len(head) - len(pre)
    n, rem = divmod(need, len(unit))
    pad_min = len("- 240101#F1 \n")
    if rem < pad_min:
        n, rem = n - 1, rem + len(unit)
    body = unit * n + "- 240101#F1 " + "x" * (rem - pad_min) + "\n"
    text = head + body + pre + link + " here\n- 240102#L1 last line of the page\n"
    assert text.index(link) == off and text.isascii()
    return text


def build_big(seed, pi):
    """Large linking pages: one link each, starting at every byte offset around a power-of-two
    boundary (a reader that works block-wise must not lose a link that straddles two blocks)."""
    A, B = pairs(seed)[pi]
    a = link_name(A)
    files = {link_name(A) + ".zo": "# the renamed page itself\n\n- 240101#R0 a note\n", "other.zo": "# page\n\n- 240101#L0 see [[" + a + "]]\n"}
    for form in (f"[[{a}]]", f"[[{a}#anc]]"):
        for bnd in _BOUNDARIES:
            for delta in range(-(len(a) + 4), 2):
                files[f"big/{'anc' if '#' in form else 'plain'}_{bnd}_{delta + 100}.zo"] = _big_text(form, bnd + delta)
    return A, B, files


def _links(text):
    r = zo.compile_text(text, name="lk.zo")
    if r["exc"] or r["nsyntax"]:
        return None
    return [sorted(n["links"]) for n in r["notes"]]


def _run_case(ctx, case, cwd_sub=None) -> F.Outcome:
    if case[0] == "cwd":
        # the same rename started from a sub-directory of the notes directory (which holds pages whose
        # names are the ones given on the command line): names are relative to --dir, not to the cwd
        _, sub, pi, subset = case
        A, B, files = build(ctx.seed, pi, subset)
        res = _run_case(ctx, [pi, subset], cwd_sub=sub)
        if not res.ok:
            res.detail["started_from"] = "<notes directory>/" + sub
        if res.nontrivial:
            res.nontrivial = H.digest(case)
        return res
    if case[0] == "spelled":
        # the same rename with the notes directory spelled through a symlink / with a '..'
        H.set_dir_spelling(case[1])
        try:
            res = _run_case(ctx, case[2:])
        finally:
            H.set_dir_spelling()
        if not res.ok:
            res.detail["notes_directory_spelled"] = case[1]
        if res.nontrivial:
            res.nontrivial = H.digest(case)
        return res
    pi, subset = case
    A, B, files = build(ctx.seed, pi, subset) if subset != "big" else build_big(ctx.seed, pi)
    zd = Z.make_zdir(files, "c14")
    out = F.Outcome()
    try:
        b_rel = link_name(B) + ".zo"
        (zd / b_rel).parent.mkdir(parents=True, exist_ok=True)
        argA = str(zd / A[4:]) if A.startswith("ABS:") else A
        argB = str(zd / B[4:]) if B.startswith("ABS:") else B
        if cwd_sub is not None:
            # the sub-directory holds a page with the OLD name and links to it of its own
            (zd / cwd_sub).mkdir(parents=True, exist_ok=True)
            extra = {f"{cwd_sub}/{link_name(A)}.zo": "# a page of the same name in the sub-directory\n\n- 240130#LS see [[" + link_name(A) + "]] and [["
                     + cwd_sub + "/" + link_name(A) + "]]\n"}
            for rel, text in extra.items():
                if rel not in files:
                    (zd / rel).parent.mkdir(parents=True, exist_ok=True)
                    Z.write_text(zd / rel, text)
                    files[rel] = text
            H.set_cli_cwd(zd / cwd_sub)
        try:
            r = H.run_cli(zd, "file", "rename", argA, argB)
        finally:
            H.set_cli_cwd(None)
        after = Z.snapshot(zd, with_meta=False)
        a_rel = link_name(A) + ".zo"
        want = {}
        for rel, text in files.items():
            new_rel = b_rel if rel == a_rel else rel
            want[new_rel] = model_rewrite(text, A, B) if rel.endswith((".zo", ".zot", ".zoq")) else text
        problem = None
        if not Z.cli_ok(r):
            problem = ("rename-failed", {"status": r.status, "exit": r.value, "stderr": r.err[-600:]})
        elif sorted(after) != sorted(want):
            problem = ("file-set-differs", {"expected": sorted(want), "observed": sorted(after)})
        else:
            for rel in sorted(want):
                if after[rel] != want[rel]:
                    kind = "link-not-retargeted" if after[rel] == files.get(rel if rel != b_rel else a_rel) else "bytes-differ"
                    problem = (kind, {"file": rel, "before": files.get(rel if rel != b_rel else a_rel),
                                      "expected": want[rel], "observed": after[rel]})
                    break
        if problem is None:
            # compiled link sets differ by exactly that substitution
            a, b = link_name(A), link_name(B)
            before_l, after_l = _links(files["other.zo"]), _links(after["other.zo"])
            # (the compiler drops non-ASCII characters, so its link names say nothing about such pages)
            if before_l is not None and after_l is not None and (a + b).isascii():
                mapped = [sorted({b + l[len(a):] if (l == a or l.startswith(a + "#")) else l for l in ls}) for ls in before_l]
                if mapped != after_l:
                    problem = ("compiled-link-sets-differ", {"before": before_l, "after": after_l, "expected": mapped})
        out.obs = H.digest(after)
        if subset:
            out.nontrivial = H.digest(case)
        if problem and subset == "big":
            # (the pages are large: keep the replay file small)
            problem = (problem[0], {k: (v if not isinstance(v, str) or len(v) < 400 else v[:150] + " ... " + v[-150:])
                                    for k, v in problem[1].items()})
            files = {k: (v if len(v) < 400 else f"<{len(v)} bytes>") for k, v in files.items()}
        if problem:
            out.ok = False
            out.sig = problem[0]
            out.detail = {"rename": [A, B], "files_before": files, "problem": problem[1]}
    finally:
        Z.drop(zd)
    return out


def _cases(ctx):
    n = 13
    maxk = 2 if ctx.quick else 3
    cases = []
    for pi in range(len(pairs(ctx.seed))):
        for k in range(0, maxk + 1):
            for subset in it.combinations(range(n), k):
                cases.append([pi, list(subset)])
        cases.append([pi, list(range(n))])
    for pi in (0, 1, 9):
        for subset in ([0], [0, 1], list(range(n))):
            cases.append(["cwd", "proj", pi, subset])
            cases.append(["cwd", "deep/er", pi, subset])
    cases.append([0, "big"])
    cases.append([3, "big"])
    # the notes directory spelled through a symlink / with a '..' (names given relative to it)
    for pi, (A, B) in enumerate(pairs(ctx.seed)):
        if A.startswith("ABS:"):
            continue
        for how in ("symlink", "dotdot"):
            for subset in ([0], [1, 3], [0, 12], list(range(n))):
                cases.append(["spelled", how, pi, subset])
    return cases


def _sample(ctx, case):
    if case[0] == "cwd":
        return dict(_sample(ctx, case[2:]), started_from="<notes directory>/" + case[1])
    if case[1] == "big":
        A, B, files = build_big(ctx.seed, case[0])
        return {"rename": [A, B], "pages": sorted(files)[:6] + ["..."], "sizes": sorted({len(v) for v in files.values()})[-3:]}
    if case[0] == "spelled":
        return dict(_sample(ctx, case[2:]), notes_directory_spelled=case[1])
    A, B, files = build(ctx.seed, case[0], case[1])
    return {"rename": [A, B], "other.zo": files["other.zo"]}


def run(ctx: F.Ctx):
    cases = _cases(ctx)
    rep = F.explore(ctx, cases, lambda c: _run_case(ctx, c), sample=lambda c: _sample(ctx, c), twice_every=151)
    meta = {
        "rule": (
            "9 renames (absolute paths; plain, B extends A, A extends B, inside a sub-directory, into a "
            "sub-directory, names given with .zo, base names ending in o / z) x every subset of size <= 2 (quick) / <= 3 "
            "(thorough) of 13 link texts confusable with A ([[A]], [[A#anc]], twice on a line, "
            "[[Ax]], [[xA]], [[A/sub]], [[up/A]], [[A.zo]], [A], [[ A]], ((A)), the bare word, "
            "[[B]]) + the full set; each subset is written one per line and all on one line into "
            "the renamed page, another page, a page two directories deep, a .zot template, a .zoq "
            "query page and a non-zorg file. Oracle: file set (only the page moved) and every byte "
            "equal to an independent link-token rewrite; compiled link sets of a page differ by "
            "exactly the substitution. Non-trivial = non-empty subset."
        ),
        "bounds": {"cases": len(cases), "renames": [list(p) for p in pairs(ctx.seed)]},
        "assumptions": ["the destination directory exists", "link texts are closed ([[...]])"],
        "exhaustive": True,
    }
    return rep, meta


def replay(case, ctx: F.Ctx) -> F.Outcome:
    return _run_case(ctx, list(case))
