"""C10 — `note move` relocates exactly one note and loses nothing.

(source layout x moved note x ZID mentions x destination shape x marker); every
case builds a real directory, indexes it with the real `db create`, runs the
real `zorg note move ZID DEST [x|~]` in a fresh process and compares the bytes
of both files with a line-algebra model; then both pages are recompiled and the
set of notes and the moved note's metadata are compared with before.
"""

from __future__ import annotations

import datetime as dt
import itertools as it
import re

from mc.core import framework as F
from mc.core import harness as H
from mc.core import zdir as Z
from mc.core import zo

ID = "C10"
LEVEL = "exploration"
DAY = dt.date(2024, 5, 15)
H1R, H2R = "#" * 32, "=" * 24
MZ = "240301#MV"  # the note that is moved

NOTE_FORMS = {
    "single": [f"o P1 {MZ} moved body words"],
    "multi": [f"o P1 {MZ} moved body words", "  * first bullet", "    - nested bullet", "  continued text"],
    "plain": [f"- {MZ} moved plain note"],
    "stamped": [f"o P2 240412 {MZ} moved stamped todo", "  * with a bullet"],
    # the item ends with an indented whitespace-only line (an editor's auto-indent): that line
    # is part of the item and leaves the source with it; it need not arrive in the destination
    "done": [f"x {MZ} moved note that is done already"],
    "cancelled-stamped": [f"~ P1 240412 {MZ} moved cancelled todo", "  * with a bullet"],
    "trailing-ws": [f"- {MZ} note ending in a blank-looking line", "  continued", "   "],
}
POSITIONS = ["first", "middle", "last", "only-in-block", "under-h1", "under-h2", "before-comment", "before-header"]
MENTIONS = ["none", "earlier-note", "later-note", "earlier-zid-link", "self", "earlier-bullet", "earlier-longer-zid", "earlier-case-twin"]
OWN_TAGS = ["none", "same-as-inherited", "extends-inherited", "own-keys-end-with-inherited-keys"]
DESTS = ["missing-no-template", "missing-template", "header-only", "header-blank", "block-nl", "block-no-nl",
         "block-two-blank", "block-then-section", "ends-with-section-header", "mentions-zid",
         "ends-with-section-header-no-nl", "missing-template-ending-in-section", "same-page",
         "existing-and-matching-a-template", "block-crlf", "last-note-has-blank-only-line"]
MARKERS = [None, "x", "~"]


def build_source(form, pos, mention, own):
    note = list(NOTE_FORMS[form])
    if own == "same-as-inherited":
        note[0] += " #inh +proj"
    elif own == "extends-inherited":
        # longer tags that merely start with the inherited names
        note[0] += " #inh2 +proj_x"
    elif own == "own-keys-end-with-inherited-keys":
        # own properties whose keys merely END with the inherited keys hk, sk, deep, spaced
        note[0] += " xhk::1 ssk::2 [undeep:: own value] unspaced::3"
    if mention == "self":
        # the note mentions its own ZID once more in its body
        note[0] += f" (this is {MZ} itself)"
    a = "- 240101#S1 neighbour one"
    b = "- 240102#S2 neighbour two"
    if mention == "earlier-note":
        a += f" see {MZ} for more"
    elif mention == "earlier-zid-link":
        a += f" see [{MZ}] for more"
    elif mention == "earlier-longer-zid":
        # the neighbour above carries a three-character ZID that BEGINS with the moved ZID
        a = f"- {MZ}1 neighbour one"
    elif mention == "earlier-case-twin":
        # the neighbour above carries the moved ZID in the other letter case
        a = "- " + MZ[:7] + MZ[7:].lower() + " neighbour one"
    elif mention == "earlier-bullet":
        # an earlier note has a nested bullet that starts with the ZID
        a += f"\n  * related:\n    - {MZ} see this one"
    elif mention == "later-note":
        b += f" refers to {MZ} here"
    # one-word values that are not plain identifiers must survive as well
    head = "# Source page #inh +proj\n# hk::hv [spaced:: two words] [dash:: a-b] [u:: https://ex.com/p/q.html] [w:: C:\\notes\\today\\1] [esc:: a\\\\b] [old:: 1999-12-31] [zz:: 240305#0I]\n\n"
    if pos == "first":
        body = "\n".join(note + [a, b]) + "\n"
        if mention.startswith("earlier"):
            # an earlier line must exist: put the mentioning note in a block above
            body = a + "\n\n" + "\n".join(note + [b]) + "\n"
    elif pos == "middle":
        body = "\n".join([a] + note + [b]) + "\n"
    elif pos == "last":
        body = "\n".join([a, b] + note) + "\n"
    elif pos == "only-in-block":
        body = a + "\n\n" + "\n".join(note) + "\n\n" + b + "\n"
    elif pos == "under-h1":
        body = a + "\n\n" + f"{H1R} Sec One @ctx sk::sv\n\n" + "\n".join(note) + "\n" + b + "\n"
    elif pos == "under-h2":
        body = a + "\n\n" + f"{H1R} Sec One @ctx\n\n{H2R} Sub %per [deep:: x y]\n\n" + "\n".join([b] + note) + "\n"
    elif pos == "before-comment":
        # last item of its block, an in-block comment right below it
        body = "\n".join([a] + note) + "\n# a comment that belongs to the block, not to the note\n" + b + "\n"
    elif pos == "before-header":
        # a section header directly below the note, without a blank line
        body = "\n".join([a] + note) + f"\n{H1R} Sec Two @ctx2 sk2::sv2\n\n" + b + "\n"
    else:
        raise H.HarnessError(pos)
    return head + body, note


def build_dest(kind):
    """-> (text or None if missing, template map)."""
    if kind == "missing-no-template":
        return None, {}
    if kind == "missing-template":
        return None, {r"dest\.zo": "dest.zot"}
    if kind == "header-only":
        return "# Dest page\n", {}
    if kind == "header-blank":
        return "# Dest page\n\n", {}
    if kind == "block-nl":
        return "# Dest page\n\n- 240201#D1 dest note one\n- 240202#D2 dest note two\n", {}
    if kind == "block-no-nl":
        return "# Dest page\n\n- 240201#D1 dest note one\n- 240202#D2 dest note two", {}
    if kind == "block-two-blank":
        return "# Dest page\n\n- 240201#D1 dest note one\n\n\n", {}
    if kind == "block-then-section":
        return f"# Dest page\n\n- 240201#D1 dest note one\n\n{H1R} Dsec\n\n- 240202#D2 in section\n", {}
    if kind == "ends-with-section-header":
        return f"# Dest page\n\n- 240201#D1 dest note one\n\n{H1R} Dsec\n", {}
    if kind == "ends-with-section-header-no-nl":
        return f"# Dest page\n\n- 240201#D1 dest note one\n\n- 240202#D2 second block\n\n{H1R} Later +someday", {}
    if kind == "missing-template-ending-in-section":
        return None, {r"dest\.zo": "dest2.zot"}
    if kind == "same-page":
        return "<SAME>", {}
    if kind == "existing-and-matching-a-template":
        # the page exists AND a template pattern matches its name: it must be left as it is
        return "# Dest page\n\n- 240201#D1 dest note one\n- 240202#D2 dest note two\n", {r"dest\.zo": "dest.zot"}
    if kind == "last-note-has-blank-only-line":
        # the destination's last note contains an indented line that holds only blanks
        return "# Dest page\n\n- 240201#D1 dest note one\n  \n  * bullet after a blank-looking line\n", {}
    if kind == "block-crlf":
        # Windows line endings in the destination: every old line keeps its bytes
        return "# Dest page\r\n\r\n- 240201#D1 dest note one\r\n- 240202#D2 dest note two\r\n", {}
    if kind == "mentions-zid":
        return f"# Dest page\n\n- 240201#D1 dest note about {MZ} and more\n", {}
    raise H.HarnessError(kind)


TEMPLATE = "# template header\n\n## Dest from template\n\n- 240203#T1 template note\n"
# renders (jinja drops the final newline) to a page whose last line is a section header
TEMPLATE2 = f"# template header\n\n## Dest from template two\n\n- 240203#T1 template note\n\n{H1R} @pomodoro\n"
RENDERED = {"dest.zot": "# Dest from template\n\n- 240203#T1 template note",
            "dest2.zot": f"# Dest from template two\n\n- 240203#T1 template note\n\n{H1R} @pomodoro"}


def _notes_by_zid(text):
    r = zo.compile_text(text, name="cmp.zo")
    if r["exc"] or r["nsyntax"] or r["has_errors"]:
        return None, r
    # a note that lost its ZID still has to show up in the comparison
    return {(n["zid"] or f"<no ZID, line {n['line']}>"): n for n in r["notes"]}, r


def _strip_added(body_after: str, body_before: str) -> bool:
    """Body after the move = body before with extra metadata words inserted as ONE run
    right after the leading ZID (first line only); every other word stays where it was."""
    la, lb = body_after.split("\n"), body_before.split("\n")
    if la[1:] != lb[1:]:
        return False
    wa, wb = la[0].split(" "), lb[0].split(" ")
    if len(wa) < len(wb) or not wb:
        return False
    # position of the note's own ZID: first word, or second after a modify date
    k = 1 if (len(wb) > 1 and re.fullmatch(r"\d{6}", wb[0]) and "#" in wb[1]) else 0
    extra = len(wa) - len(wb)
    return wa[:k + 1] == wb[:k + 1] and wa[k + 1 + extra:] == wb[k + 1:]


def _run_case(ctx, case) -> F.Outcome:
    if case[0] == "spelled":
        # the same move with the notes directory spelled through a symlink / with a '..'
        H.set_dir_spelling(case[1])
        try:
            res = _run_case(ctx, case[2:])
        finally:
            H.set_dir_spelling()
        if not res.ok:
            res.detail["notes_directory_spelled"] = case[1]
        res.nontrivial = H.digest(case)
        return res
    if case[0] == "assigned":
        return _run_assigned(ctx, case)
    form, pos, mention, own, dkind, marker = case
    src_text, note_lines = build_source(form, pos, mention, own)
    dest_text, tmap = build_dest(dkind)
    if dkind == "same-page":
        return _run_same_page(ctx, case, src_text, note_lines)
    files = {"src.zo": src_text, "dest.zot": TEMPLATE, "dest2.zot": TEMPLATE2}
    # a page whose last item has no trailing newline is not a valid page, so it
    # cannot be indexed; `note move` only needs the file, which is put in place
    # after the index is built
    late_dest = dkind == "block-no-nl"
    if dest_text is not None and not late_dest:
        files["dest.zo"] = dest_text
    zd = Z.make_zdir(files, "c10")
    out = F.Outcome()
    try:
        H.freeze(DAY)
        r = Z.db_create(zd, DAY)
        if not Z.cli_ok(r) or Z.snapshot(zd, with_meta=False) != files:
            raise H.HarnessError("c10 setup: db create failed or rewrote files: " + r.err[-400:])
        if late_dest:
            (zd / "dest.zo").write_text(dest_text)
        before_src, _ = _notes_by_zid(src_text)
        before_dst = {}
        if dest_text is not None:
            before_dst, _ = _notes_by_zid(dest_text if not late_dest else dest_text + "\n")
        elif tmap:
            before_dst, _ = _notes_by_zid(RENDERED[list(tmap.values())[0]] + "\n")
        if before_src is None or before_dst is None:
            raise H.HarnessError("c10 setup: generated page does not compile")
        cfg = zd.parent / "cfg.yml"
        import yaml

        with open(cfg, "w") as f:
            yaml.dump({"template_pattern_map": tmap}, f, sort_keys=False)
        args = ["note", "move", MZ, "dest.zo"] + ([marker] if marker else [])
        mv = H.run_cli(zd, *args, cfg=cfg, day=DAY)
        after = Z.snapshot(zd, with_meta=False)
        problems = []
        # ---- what must happen -------------------------------------------------
        if dkind == "missing-no-template":
            # nothing to move the note into: the command must fail and touch nothing
            if Z.cli_ok(mv):
                problems.append(("move-into-nonexistent-page-reported-success", {}))
            if after.get("src.zo") != src_text:
                problems.append(("failed-move-changed-the-source", {"after": after.get("src.zo")}))
        else:
            if not Z.cli_ok(mv):
                problems.append(("move-failed", {"status": mv.status, "exit": mv.value, "stderr": mv.err[-600:]}))
            else:
                # source: exactly the note's own lines removed
                sl = src_text.split("\n")
                k = sl.index(note_lines[0])
                want_src = "\n".join(sl[:k] + sl[k + len(note_lines):])
                if after.get("src.zo") != want_src:
                    problems.append(("source-not-minus-exactly-the-note", {"expected": want_src, "observed": after.get("src.zo")}))
                # destination: old lines preserved in order, note inserted once, contiguously
                base_dest = dest_text if dest_text is not None else RENDERED[list(tmap.values())[0]]
                dst = after.get("dest.zo")
                if dst is None:
                    problems.append(("destination-missing-after-move", {}))
                else:
                    p = _dest_line_algebra(base_dest, dst, note_lines)
                    if p:
                        problems.append(p)
                    # recompile both pages
                    a_src, rs = _notes_by_zid(after["src.zo"])
                    a_dst, rd = _notes_by_zid(dst)
                    if a_src is None or a_dst is None:
                        which = "source" if a_src is None else "destination"
                        bad = rs if a_src is None else rd
                        problems.append((f"{which}-page-no-longer-valid", {"nsyntax": bad["nsyntax"], "exc": bad["exc"],
                                                                           "text": after["src.zo"] if a_src is None else dst}))
                    else:
                        want_ids = sorted(list(before_src) + list(before_dst))
                        got_ids = sorted(list(a_src) + list(a_dst))
                        if want_ids != got_ids:
                            problems.append(("set-of-notes-changed", {"expected": want_ids, "observed": got_ids}))
                        elif MZ not in a_dst:
                            problems.append(("moved-note-not-in-destination", {}))
                        else:
                            old, new = before_src[MZ], a_dst[MZ]
                            want_kind = marker or old["kind"]
                            if new["kind"] != want_kind:
                                problems.append(("moved-note-has-wrong-kind", {"expected": want_kind, "observed": new["kind"]}))
                            if not _strip_added(new["body"], old["body"]):
                                problems.append(("moved-note-body-changed", {"before": old["body"], "after": new["body"]}))
                            for fld in ("areas", "contexts", "people", "projects"):
                                if not set(old[fld]) <= set(new[fld]):
                                    problems.append(("inherited-tag-lost", {"field": fld, "before": old[fld], "after": new[fld]}))
                            lost = {k: v for k, v in old["props"].items() if new["props"].get(k) != v}
                            if lost:
                                spaced = all(" " in v for v in lost.values())
                                problems.append(("inherited-property-lost" + (":value-with-space" if spaced else ""),
                                                 {"lost": lost, "after": new["props"]}))
                            # every other note unchanged
                            for z, n in {**before_src, **before_dst}.items():
                                if z == MZ:
                                    continue
                                m = a_src.get(z) or a_dst.get(z)
                                if m is None or m["body"] != n["body"] or m["kind"] != n["kind"]:
                                    problems.append(("another-note-changed", {"zid": z, "before": n["body"], "after": m and m["body"]}))
                                    break
        out.obs = H.digest([after, mv.value if mv.status == "ok" else mv.status])
        out.nontrivial = H.digest(case)
        if problems:
            out.ok = False
            out.sig = _sig(problems, case)
            out.detail = {"source": src_text, "destination": dest_text, "marker": marker, "template_map": tmap,
                          "problem": problems[0][1], "all": [p[0] for p in problems],
                          "source_after": after.get("src.zo"), "destination_after": after.get("dest.zo")}
    finally:
        Z.drop(zd)
    return out


def _run_same_page(ctx, case, src_text, note_lines) -> F.Outcome:
    """Destination = the source page itself: the note moves to the end of the page,
    every other line stays, the set of notes is unchanged."""
    form, pos, mention, own, dkind, marker = case
    zd = Z.make_zdir({"src.zo": src_text}, "c10")
    out = F.Outcome()
    try:
        H.freeze(DAY)
        r = Z.db_create(zd, DAY)
        if not Z.cli_ok(r):
            raise H.HarnessError("c10 setup failed: " + r.err[-300:])
        before, _ = _notes_by_zid(src_text)
        mv = H.run_cli(zd, "note", "move", MZ, "src.zo", *([marker] if marker else []), day=DAY)
        after_text = (zd / "src.zo").read_text()
        problems = []
        if not Z.cli_ok(mv):
            problems.append(("move-failed", {"stderr": mv.err[-400:]}))
        else:
            sl = src_text.split("\n")
            k = sl.index(note_lines[0])
            minus = "\n".join(sl[:k] + sl[k + len(note_lines):])
            p = _dest_line_algebra(minus, after_text, note_lines)
            if p:
                problems.append((p[0] + ":same-page", p[1]))
            after, ra = _notes_by_zid(after_text)
            if after is None:
                problems.append(("page-no-longer-valid:same-page", {"text": after_text, "nsyntax": ra["nsyntax"]}))
            elif sorted(after) != sorted(before):
                problems.append(("set-of-notes-changed:same-page", {"expected": sorted(before), "observed": sorted(after)}))
            else:
                old, new = before[MZ], after[MZ]
                if new["kind"] != (marker or old["kind"]):
                    problems.append(("moved-note-has-wrong-kind", {"observed": new["kind"]}))
                if not _strip_added(new["body"], old["body"]):
                    problems.append(("moved-note-body-changed", {"before": old["body"], "after": new["body"]}))
        out.obs = H.digest(after_text)
        out.nontrivial = H.digest(case)
        if problems:
            out.ok = False
            out.sig = problems[0][0]
            out.detail = {"source": src_text, "marker": marker, "after": after_text, "problem": problems[0][1]}
    finally:
        Z.drop(zd)
    return out


# notes the index itself gives a ZID (written without one; `db create` assigns it and
# rewrites the page); then moved before anything else happens
ASSIGNED_FORMS = {
    "dated-multi": ["- 2024-03-05 mvtarget dated note", "  continued  here", "  * bullet one"],
    "todo-multi": ["o P2 mvtarget zidless todo", "  * b1", "  second line"],
    "single": ["- mvtarget single zidless"],
    "done-dated": ["x 2024-03-05 mvtarget done dated", "  * a bullet"],
    "dated-single": ["o 2024-03-05 mvtarget dated todo @ctx"],
}
ASSIGNED_DESTS = ["block-nl", "header-only", "missing-template", "block-then-section"]


def _run_assigned(ctx, case) -> F.Outcome:
    _, form, dkind, marker = case
    note = ASSIGNED_FORMS[form]
    src_text = ("# Source page #inh\n\n- 240101#S1 neighbour one\n" + "\n".join(note)
                + "\n- 240102#S2 neighbour two\n\n- 240103#S3 other block\n")
    dest_text, tmap = build_dest(dkind)
    files = {"src.zo": src_text, "dest.zot": TEMPLATE}
    if dest_text is not None:
        files["dest.zo"] = dest_text
    zd = Z.make_zdir(files, "c10a")
    out = F.Outcome()
    try:
        H.freeze(DAY)
        r = Z.db_create(zd, DAY)
        if not Z.cli_ok(r):
            raise H.HarnessError("c10 assigned setup: db create failed: " + r.err[-400:])
        s_text = (zd / "src.zo").read_text()
        before_src, rs0 = _notes_by_zid(s_text)
        problems = []
        target = None
        if before_src is not None:
            target = next((n for n in before_src.values() if "mvtarget" in n["body"]), None)
        if target is None or not target["zid"]:
            problems.append(("no-zid-assigned-by-db-create", {"source_after_create": s_text}))
        else:
            mz = target["zid"]
            sl = s_text.split("\n")
            k = target["line"] - 1
            note_lines = sl[k:k + len(note)]
            if note_lines[1:] != note[1:]:
                problems.append(("db-create-rewrote-more-than-the-first-line", {"expected_rest": note[1:], "observed": note_lines[1:]}))
            before_dst = {}
            if dest_text is not None:
                before_dst, _ = _notes_by_zid(dest_text)
            elif tmap:
                before_dst, _ = _notes_by_zid(RENDERED[list(tmap.values())[0]] + "\n")
            cfg = zd.parent / "cfg.yml"
            import yaml

            with open(cfg, "w") as f:
                yaml.dump({"template_pattern_map": tmap}, f, sort_keys=False)
            mv = H.run_cli(zd, "note", "move", mz, "dest.zo", *([marker] if marker else []), cfg=cfg, day=DAY)
            after = Z.snapshot(zd, with_meta=False)
            if not Z.cli_ok(mv):
                problems.append(("move-failed", {"status": mv.status, "exit": mv.value, "stderr": mv.err[-600:]}))
            else:
                want_src = "\n".join(sl[:k] + sl[k + len(note):])
                if after.get("src.zo") != want_src:
                    problems.append(("source-not-minus-exactly-the-note", {"expected": want_src, "observed": after.get("src.zo")}))
                base_dest = dest_text if dest_text is not None else RENDERED[list(tmap.values())[0]]
                dst = after.get("dest.zo")
                if dst is None:
                    problems.append(("destination-missing-after-move", {}))
                else:
                    pr = _dest_line_algebra(base_dest, dst, note_lines, mz)
                    if pr:
                        problems.append(pr)
                    a_src, _ = _notes_by_zid(after["src.zo"])
                    a_dst, _ = _notes_by_zid(dst)
                    if a_src is None or a_dst is None:
                        problems.append(("source-page-no-longer-valid" if a_src is None else "destination-page-no-longer-valid", {}))
                    elif sorted(list(a_src) + list(a_dst)) != sorted(list(before_src) + list(before_dst)):
                        problems.append(("set-of-notes-changed", {"expected": sorted(list(before_src) + list(before_dst)),
                                                                  "observed": sorted(list(a_src) + list(a_dst))}))
                    elif mz not in a_dst:
                        problems.append(("moved-note-not-in-destination", {}))
                    else:
                        new = a_dst[mz]
                        if new["kind"] != (marker or target["kind"]):
                            problems.append(("moved-note-has-wrong-kind", {"observed": new["kind"]}))
                        if not _strip_added(new["body"], target["body"]):
                            problems.append(("moved-note-body-changed", {"before": target["body"], "after": new["body"]}))
            out.obs = H.digest([after])
        out.nontrivial = H.digest(case)
        if problems:
            out.ok = False
            out.sig = problems[0][0] + ":zid-assigned-by-index"
            out.detail = {"source_before_create": src_text, "source_after_create": s_text, "destination": dest_text,
                          "marker": marker, "problem": problems[0][1], "all": [q[0] for q in problems],
                          "files_after": Z.snapshot(zd, with_meta=False)}
    finally:
        Z.drop(zd)
    return out


def _sig(problems, case) -> str:
    form, pos, mention, own, dkind, marker = case
    first = problems[0][0]
    return first


def _dest_line_algebra(before: str, after: str, note_lines, mz: str = MZ):
    note_lines = list(note_lines)
    while len(note_lines) > 1 and note_lines[-1].strip() == "":
        note_lines.pop()
    """Every line of `before` is preserved in order; the note's lines (first line
    possibly with a different kind / added metadata) appear once, contiguously;
    a blank line may be consumed or added next to the insertion."""
    bl = before.split("\n")
    al = after.split("\n")
    # locate the inserted run: the line carrying the moved ZID as its identity
    idxs = [i for i, l in enumerate(al) if re.match(rf"^[-ox~<>] (P\d )?(\d{{6}} )?{re.escape(mz)}( |$)", l)]
    if len(idxs) != 1:
        return ("note-not-inserted-exactly-once", {"occurrences": len(idxs), "after": after})
    i = idxs[0]
    run = al[i:i + len(note_lines)]
    if run[1:] != note_lines[1:]:
        return ("inserted-note-lines-not-contiguous", {"expected_rest": note_lines[1:], "observed": run[1:]})
    rest = al[:i] + al[i + len(note_lines):]
    nb = [l for l in bl if l != ""]
    nr = [l for l in rest if l != ""]
    if nb != nr:
        lost = [l for l in nb if l not in nr]
        return ("destination-line-lost-or-altered", {"lost_or_changed": lost, "before": before, "after": after})
    # blank lines: at most one consumed or added, and only adjacent to the insertion
    if abs(len(rest) - len(bl)) > 1:
        return ("destination-blank-lines-changed", {"before": before, "after": after})
    return None


def _cases(ctx):
    cases = []
    if ctx.quick:
        # every value of every dimension, pairwise-rotated
        k = 0
        for form in NOTE_FORMS:
            for pos in POSITIONS:
                for mention in MENTIONS:
                    dkind = DESTS[k % len(DESTS)]
                    marker = MARKERS[k % 3]
                    own = OWN_TAGS[k % len(OWN_TAGS)]
                    cases.append([form, pos, mention, own, dkind, marker])
                    k += 1
        for dkind in DESTS:
            for marker in MARKERS:
                for form in ("single", "multi"):
                    cases.append([form, "middle", "none", "none", dkind, marker])
        for pos in POSITIONS:
            for dkind in DESTS:
                cases.append(["multi", pos, "none", OWN_TAGS[1 + (len(cases) % (len(OWN_TAGS) - 1))], dkind, None])
    else:
        # thorough: every (form, position, destination, marker, mention) with the own-tag variant rotating,
        # and every (mention, own-tag variant, form, destination) with position and marker rotating -- all
        # pairs and most triples of the six dimensions (the full product, 86,016 moves, was run to
        # completion once, see DESIGN §9; it takes over an hour and finds nothing the covering misses)
        k = 0
        for form, pos, dkind, marker, mention in it.product(NOTE_FORMS, POSITIONS, DESTS, MARKERS, MENTIONS):
            cases.append([form, pos, mention, OWN_TAGS[k % len(OWN_TAGS)], dkind, marker])
            k += 1
        for mention, own, form, dkind in it.product(MENTIONS, OWN_TAGS, NOTE_FORMS, DESTS):
            cases.append([form, POSITIONS[k % len(POSITIONS)], mention, own, dkind, MARKERS[k % len(MARKERS)]])
            k += 1
    for form in ASSIGNED_FORMS:
        for dkind in ASSIGNED_DESTS:
            for marker in (None, "x"):
                cases.append(["assigned", form, dkind, marker])
    for how in ("symlink", "dotdot"):
        for dkind in ("block-nl", "missing-template", "same-page", "header-only"):
            for form, pos, marker in (("single", "middle", None), ("multi", "under-h2", "x")):
                cases.append(["spelled", how, form, pos, "earlier-note", "same-as-inherited", dkind, marker])
    seen = set()
    out = []
    for c in cases:
        t = tuple(c)
        if t not in seen:
            seen.add(t)
            out.append(c)
    return out


def _sample(case):
    if case[0] == "spelled":
        return dict(_sample(case[2:]), notes_directory_spelled=case[1])
    if case[0] == "assigned":
        return {"moved_note_as_written": ASSIGNED_FORMS[case[1]], "destination": build_dest(case[2])[0],
                "steps": ["db create (assigns the ZID)", "note move <assigned ZID> dest.zo" + (f" {case[3]}" if case[3] else "")]}
    form, pos, mention, own, dkind, marker = case
    return {"source": build_source(form, pos, mention, own)[0], "destination": build_dest(dkind)[0],
            "command": f"zorg note move {MZ} dest.zo" + (f" {marker}" if marker else "")}


def run(ctx: F.Ctx):
    cases = _cases(ctx)
    rep = F.explore(ctx, cases, lambda c: _run_case(ctx, c), sample=_sample, day=DAY, twice_every=101)
    meta = {
        "rule": (
            "moved note in 4 forms (single-line todo, multi-line todo with bullets and a "
            "continuation, plain note, a todo that carries a modify date) x 6 positions (first/middle/last of a block, alone in a "
            "block, under an H1 carrying a tag and a property, under H1>H2 carrying tags and an "
            "inline property whose value has a space) x ZID mentioned {nowhere, in an earlier note, "
            "in a later note, in an earlier [zid] link} x own tags {none, same as inherited, longer "
            "tags that start with the inherited names} x 10 "
            "destinations (missing without / with a matching template, header only, header + blank, "
            "block ending in newline / without newline / with two blank lines, block then section, "
            "last line a section header with and without trailing newline, a template whose rendering "
            "ends in a section header, a note mentioning the ZID, the source page itself) x marker {none, x, ~}; quick "
            "covers every value of every dimension in rotation, thorough every (form, position, destination, marker, mention) with the own-tag pattern rotating plus every (mention, own-tag pattern, form, destination) with position and marker rotating (24,248 moves; the full product of 86,016 was run to completion once). Oracle: "
            "line algebra on both files, then recompilation of both pages (same set of notes, "
            "requested kind, body = old body + inserted metadata words, tags/properties superset). "
            "Plus 5 notes written WITHOUT a ZID (dated / undated, single / multi-line) that `db create` "
            "gives a ZID, moved straight afterwards x 4 destinations x marker {none, x}."
        ),
        "bounds": {"cases": len(cases)},
        "assumptions": ["moving into a page that does not exist and has no template must fail without touching the source"],
        "exhaustive": not ctx.quick,
    }
    return rep, meta


def replay(case, ctx: F.Ctx) -> F.Outcome:
    return _run_case(ctx, list(case))
