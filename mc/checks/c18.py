"""C18 — File-group expansion flattens groups in place and in order.

Exhaustive small-scope enumeration: all acyclic group maps over three group
names with member lists up to a length bound over a 6-symbol member alphabet,
times argument lists, times frozen days chosen at window edges; every
expansion by the real `expand_file_group_paths` is compared with an
independent recursive flatten, and the concatenation law is checked for every
split of every argument list.
"""

from __future__ import annotations

import datetime as dt
import itertools as it
from pathlib import Path

from mc.core import framework as F
from mc.core import harness as H

ID = "C18"
LEVEL = "exploration"

_FILE_POOLS = [("p.zo", "q r/s t.zo"), ("notes.zo", "work log/my log.zo"), ("a1.zo", "x y/z 9.zo")]
_GROUP_POOLS = [("g1", "g2", "g3"), ("main", "proj", "misc"), ("a", "b", "c")]
_ARG_POOLS = [("a.zo", "b/c.zo"), ("top.zo", "sub/dir/n.zo"), ("x.zo", "y/z.zo")]
_ORDINARY = [dt.date(2024, 5, 15), dt.date(2023, 9, 20), dt.date(2025, 11, 7)]
_EDGE_DAYS = [
    dt.date(2024, 1, 1),  # window reaches into the previous year
    dt.date(2024, 3, 1),  # leap year: window contains Feb 29
    dt.date(2023, 3, 1),  # non-leap: window contains Feb 28, no Feb 29
    dt.date(2025, 1, 3),  # year boundary in the middle of the window
]


# ---- abstract members -----------------------------------------------------
# ("lit", text) | ("esc", pattern, rendered) | ("ymd", idx, suffix) | ("dayfmt", idx, fmt, suffix) | ("grp", k)
def _member_text(m, names):
    if m[0] == "lit":
        return m[1]
    if m[0] == "esc":
        return m[1]
    if m[0] == "ymd":
        return "{yyyymmdd[%d]}%s" % (m[1], m[2])
    if m[0] == "dayfmt":
        return "{days[%d]:%s}%s" % (m[1], m[2], m[3])
    return "@" + names[m[1]]


def _model_render(m, day: dt.date) -> str:
    """The model's own 7-day window: today and the previous six days."""
    if m[0] == "lit":
        return m[1]
    if m[0] == "esc":
        # '{{' / '}}' are the escapes of a format string: formatted ONCE they are literal braces
        return m[2]
    d = dt.date.fromordinal(day.toordinal() - m[1])
    if m[0] == "ymd":
        return "%04d%02d%02d%s" % (d.year, d.month, d.day, m[2])
    assert m[0] == "dayfmt" and m[2] == "%Y"
    return "%04d%s" % (d.year, m[3])


def _model_flatten(k, gmap, day):
    out = []
    for m in gmap[k]:
        if m[0] == "grp":
            out.extend(_model_flatten(m[1], gmap, day))
        else:
            out.append(_model_render(m, day))
    return out


def _model_expand(args, gmap, day):
    out = []
    for a in args:
        if a[0] == "grp":
            out.extend(_model_flatten(a[1], gmap, day))
        else:
            out.append(a[1])
    return out


def _lists(alpha, maxlen):
    for n in range(maxlen + 1):
        yield from it.product(alpha, repeat=n)


def _alphabets(seed):
    files = H.rotate(_FILE_POOLS, seed)[0]
    names = H.rotate(_GROUP_POOLS, seed)[0]
    argf = H.rotate(_ARG_POOLS, seed)[0]
    base = [
        ("lit", files[0]),
        ("lit", files[1]),
        ("ymd", 0, ".zo"),
        ("ymd", 6, "_x.zo"),
        ("dayfmt", 1, "%Y", "/f.zo"),
        ("esc", "tmpl_{{yyyymmdd[1]}}_{{x}}.zo", "tmpl_{yyyymmdd[1]}_{x}.zo"),
    ]
    return base, names, argf


def _params(ctx: F.Ctx):
    if ctx.quick:
        return {"len_g1": 2, "len_g2": 2, "len_g3": 1, "arg_len": 2, "edge_arg_len": 1}
    return {"len_g1": 3, "len_g2": 2, "len_g3": 2, "arg_len": 3, "edge_arg_len": 1}


def _build(ctx: F.Ctx):
    base, names, argf = _alphabets(ctx.seed)
    p = _params(ctx)
    # the member with brace escapes belongs to the innermost group only (it is reached through g1 and
    # g2 there, i.e. always nested, which is where formatting twice would show)
    plain = [m for m in base if m[0] != "esc"]
    a3 = list(_lists(base, p["len_g3"]))
    a2 = list(_lists(plain + [("grp", 2)], p["len_g2"]))
    a1 = list(_lists(plain + [("grp", 1), ("grp", 2)], p["len_g1"]))
    # ordinary path arguments are left untouched, also when they look like member patterns
    arg_alpha = [("grp", 0), ("grp", 1), ("grp", 2), ("path", argf[0]), ("path", argf[1]),
                 ("path", "{yyyymmdd[0]}_lit.zo"), ("path", "t_{{x}}.zo"),
                 # an ordinary path whose text is also the name of a group (the page g2.zo, not @g2)
                 ("path", names[1])]
    ordinary = H.rotate(_ORDINARY, ctx.seed)[0]
    return base, names, argf, p, a1, a2, a3, arg_alpha, ordinary


def _run_chunk(ctx: F.Ctx, case) -> F.Outcome:
    """case = [i3, i2]: fixed member lists of g3 and g2; loops over g1."""
    from zorg.service.file_groups import expand_file_group_paths

    base, names, argf, p, a1, a2, a3, arg_alpha, ordinary = _build(ctx)
    i3, i2 = case
    l3, l2 = a3[i3], a2[i2]
    out = F.Outcome(n_evals=0)
    obs = []
    arg_lists_full = list(_lists(arg_alpha, p["arg_len"]))
    arg_lists_edge = list(_lists(arg_alpha, p["edge_arg_len"]))
    # In the thorough tier the long argument lists are explored for the member
    # lists of length <= 2 only (the quick space), every map still gets the
    # single-argument lists on every day.
    for l1 in a1:
        gmap = {0: l1, 1: l2, 2: l3}
        real_map = {
            names[k]: [_member_text(m, names) for m in gmap[k]] for k in gmap
        }
        small = len(l1) <= 2 and len(l2) <= 2
        nests = any(m[0] == "grp" for m in l1 + l2)
        # `day` is the LOCAL calendar day; in the two non-UTC zones the UTC calendar day is the day
        # before (east, just after midnight) or the day after (west, in the evening)
        for zone, day in [("utc-noon", ordinary)] + [("utc-noon", d) for d in _EDGE_DAYS] + [
                ("east-night", ordinary), ("west-evening", ordinary), ("east-night", _EDGE_DAYS[0])]:
            H.set_zone(zone)
            H.freeze(day)
            arg_lists = (
                arg_lists_full if (zone == "utc-noon" and day == ordinary and small) else arg_lists_edge
            )
            cache = {}
            for args in arg_lists:
                real_args = [
                    ("@" + names[a[1]]) if a[0] == "grp" else a[1] for a in args
                ]
                try:
                    got = [
                        str(x)
                        for x in expand_file_group_paths(
                            real_args, file_group_map=real_map
                        )
                    ]
                except Exception as e:  # noqa: BLE001
                    got = f"EXC {type(e).__name__}: {e}"
                want = [str(Path(x)) for x in _model_expand(args, gmap, day)]
                cache[args] = got
                out.n_evals += 1
                if nests and any(a[0] == "grp" for a in args):
                    out.n_nontrivial += 1
                if got != want and out.ok:
                    out.ok = False
                    out.sig = "expand-differs-from-flatten-model"
                    out.detail = {
                        "file_group_map": real_map,
                        "args": real_args,
                        "day": day.isoformat(),
                        "zone": zone,
                        "expected": want,
                        "observed": got,
                    }
                # concatenation law, differential between real executions
                if len(args) >= 2 and not isinstance(got, str):
                    for cut in range(1, len(args)):
                        l, r = cache.get(args[:cut]), cache.get(args[cut:])
                        if isinstance(l, list) and isinstance(r, list) and l + r != got:
                            if out.ok:
                                out.ok = False
                                out.sig = "concatenation-law"
                                out.detail = {
                                    "file_group_map": real_map,
                                    "args": real_args,
                                    "cut": cut,
                                    "left": l,
                                    "right": r,
                                    "whole": got,
                                }
            obs.append(H.digest(sorted(map(repr, cache.items()))))
    H.set_zone()
    out.obs = H.digest(obs)
    return out


# ---- a zone with daylight-saving time ------------------------------------------------------
# freezegun knows fixed offsets only, so this family runs WITHOUT it, in a forked child: the
# process's real zone is set with TZ + tzset(), and the module's `dt` is replaced by a stand-in
# whose datetime.now() is a fixed instant expressed through the real zone rules (timestamp() and
# fromtimestamp() are the real ones).  "The previous six days" are calendar days, also when a
# day of the window has 23 or 25 hours.
_DST_ZONES = {
    "us-eastern": ("EST5EDT,M3.2.0,M11.1.0", [(2026, 11, 1, 23, 30), (2026, 11, 4, 23, 40), (2026, 11, 2, 0, 20), (2026, 3, 9, 0, 30),
                                              (2026, 3, 8, 12, 0), (2026, 3, 14, 0, 5), (2026, 7, 1, 12, 0), (2026, 11, 1, 1, 30)]),
    "central-europe": ("CET-1CEST,M3.5.0,M10.5.0/3", [(2026, 10, 25, 23, 30), (2026, 3, 30, 0, 30), (2026, 10, 26, 0, 10), (2026, 1, 15, 9, 0)]),
    "lord-howe-half-hour": ("LHST-10:30LHDT-11,M10.1.0,M4.1.0", [(2026, 4, 5, 23, 45), (2026, 10, 5, 0, 10)]),
}


def _dst_child(rule, instants, real_map, real_args):
    import os
    import time
    import types

    H.unfreeze()
    os.environ["TZ"] = rule
    time.tzset()
    import datetime as real_dt

    import zorg.service.file_groups as fg

    epoch = [0.0]

    class _DT(real_dt.datetime):
        @classmethod
        def now(cls, tz=None):
            b = real_dt.datetime.fromtimestamp(epoch[0], tz)
            return cls(b.year, b.month, b.day, b.hour, b.minute, b.second, b.microsecond, tzinfo=b.tzinfo, fold=b.fold)

        @classmethod
        def today(cls):
            return cls.now()

        @classmethod
        def utcnow(cls):
            b = real_dt.datetime.fromtimestamp(epoch[0], real_dt.timezone.utc).replace(tzinfo=None)
            return cls(b.year, b.month, b.day, b.hour, b.minute, b.second, b.microsecond)

    class _D(real_dt.date):
        @classmethod
        def today(cls):
            b = real_dt.datetime.fromtimestamp(epoch[0])
            return cls(b.year, b.month, b.day)

    shim = types.ModuleType("datetime_stand_in")
    for name in dir(real_dt):
        if not name.startswith("__"):
            setattr(shim, name, getattr(real_dt, name))
    shim.datetime, shim.date = _DT, _D
    fg.dt = shim
    out = []
    for (y, mo, d, h, mi) in instants:
        epoch[0] = time.mktime((y, mo, d, h, mi, 0, 0, 0, -1))
        try:
            got = [str(x) for x in fg.expand_file_group_paths(real_args, file_group_map=real_map)]
        except Exception as e:  # noqa: BLE001
            got = f"EXC {type(e).__name__}: {e}"
        lt = time.localtime(epoch[0])
        out.append(([lt.tm_year, lt.tm_mon, lt.tm_mday, lt.tm_hour, lt.tm_min, lt.tm_isdst], got))
    return out


def _dst_case(ctx: F.Ctx, zone: str) -> F.Outcome:
    _, names, _ = _alphabets(ctx.seed)
    rule, instants = _DST_ZONES[zone]
    gmap = {0: [("ymd", i, ".zo") for i in range(7)] + [("grp", 1)], 1: [("ymd", 1, "_b.zo"), ("dayfmt", 6, "%Y", "/f.zo")], 2: []}
    real_map = {names[k]: [_member_text(m, names) for m in gmap[k]] for k in gmap}
    args = [("grp", 0), ("grp", 1)]
    real_args = ["@" + names[0], "@" + names[1]]
    r = H.run_child(_dst_child, rule, instants, real_map, real_args, capture=False)
    if r.status != "ok":
        raise H.HarnessError(f"dst child failed: {r.status} {r.exc}")
    out = F.Outcome(n_evals=0)
    obs = []
    for (y, mo, d, h, mi), (local, got) in zip(instants, r.value):
        if local[:5] != [y, mo, d, h, mi]:
            # (a wall-clock time that does not exist on that day: mktime moved it)
            continue
        want = [str(Path(x)) for x in _model_expand(args, gmap, dt.date(y, mo, d))]
        out.n_evals += 1
        out.n_nontrivial += 1
        obs.append(got)
        if got != want and out.ok:
            out.ok = False
            out.sig = "expand-differs-from-flatten-model:daylight-saving-zone"
            out.detail = {"TZ": rule, "local_time": "%04d-%02d-%02d %02d:%02d" % (y, mo, d, h, mi), "dst_in_effect": bool(local[5]),
                          "file_group_map": real_map, "args": real_args, "expected": want, "observed": got}
    out.obs = H.digest(obs)
    return out


def _parser_case(ctx: F.Ctx) -> F.Outcome:
    """clack_parser infers `edit` for a leading @group and @default for none."""
    from clack import clack_envvars_set
    from zorg.app.config import EditConfig, TemplateRenderConfig, clack_parser

    _, names, argf = _alphabets(ctx.seed)
    out = F.Outcome(n_evals=0)
    obs = []
    trials = [([""], ["@default"])]
    trials.append((["", "@" + names[0], "{yyyymmdd[0]}_lit.zo"], ["@" + names[0], "{yyyymmdd[0]}_lit.zo"]))
    for g in names:
        trials.append((["", "@" + g], ["@" + g]))
        trials.append((["", "@" + g, argf[0]], ["@" + g, argf[0]]))
        trials.append((["", "@" + g, "@" + names[0]], ["@" + g, "@" + names[0]]))
    for argv, want_paths in trials:
        with clack_envvars_set("zorg", [EditConfig, TemplateRenderConfig]):
            try:
                kw = clack_parser(argv)
                got = {"command": kw.get("command"),
                       "zo_paths": [str(p) for p in kw.get("zo_paths", [])]}
            except BaseException as e:  # noqa: BLE001
                got = {"exc": f"{type(e).__name__}: {e}"}
        want = {"command": "edit", "zo_paths": want_paths}
        out.n_evals += 1
        out.n_nontrivial += 1
        obs.append(got)
        if got != want and out.ok:
            out.ok = False
            out.sig = "clack-parser-default-edit"
            out.detail = {"argv": argv, "expected": want, "observed": got}
    out.obs = H.digest(obs)
    return out


def _run_case(ctx: F.Ctx, case) -> F.Outcome:
    if case[0] == "parser":
        return _parser_case(ctx)
    if case[0] == "dst":
        return _dst_case(ctx, case[1])
    return _run_chunk(ctx, case[1:])


def _sample(ctx, case):
    if case[0] == "dst":
        return {"kind": "zone with daylight-saving time", "TZ": _DST_ZONES[case[1]][0], "local_instants": _DST_ZONES[case[1]][1]}
    if case[0] == "parser":
        return {"kind": "clack_parser argv", "argv": ["zorg", "@g1"]}
    base, names, argf, p, a1, a2, a3, arg_alpha, ordinary = _build(ctx)
    l3, l2 = a3[case[1]], a2[case[2]]
    l1 = a1[len(a1) // 2]
    gmap = {0: l1, 1: l2, 2: l3}
    return {
        "file_group_map": {names[k]: [_member_text(m, names) for m in gmap[k]] for k in gmap},
        "args": ["@" + names[0], argf[0]],
        "day": ordinary.isoformat(),
        "expected": _model_expand([("grp", 0), ("path", argf[0])], gmap, ordinary),
    }


def run(ctx: F.Ctx):
    base, names, argf, p, a1, a2, a3, arg_alpha, ordinary = _build(ctx)
    cases = [["parser"]] + [["dst", z] for z in _DST_ZONES] + [
        ["chunk", i3, i2] for i3 in range(len(a3)) for i2 in range(len(a2))
    ]
    rep = F.explore(
        ctx, cases, lambda c: _run_case(ctx, c), sample=lambda c: _sample(ctx, c),
        twice_every=97,
    )
    meta = {
        "rule": (
            "every acyclic map {g1,g2,g3} with member lists up to the stated "
            "lengths over {2 literal paths, {yyyymmdd[0]}, {yyyymmdd[6]}, "
            "{days[1]:%Y}, @later-group}; every argument list up to the stated "
            "length over {@g1,@g2,@g3, 2 plain paths, 2 paths containing braces}; 5 frozen days (one ordinary + 4 "
            "window-edge days). One evaluation = one real expansion compared "
            "with the flatten model (+ the concatenation law for every split). "
            "Non-trivial = the map nests a group inside a group AND the "
            "argument list names a group (each (map,args,day) is distinct by "
            "construction)."
        ),
        "bounds": {
            **p,
            "maps": len(a1) * len(a2) * len(a3),
            "days": [ordinary.isoformat()] + [d.isoformat() for d in _EDGE_DAYS],
            "group_names": names,
            "long_arg_lists_on": "ordinary day, maps whose g1,g2 lists have length <= 2",
        },
        "assumptions": [
            "acyclic maps only (the statement is about acyclic configurations)",
            "time frozen per execution with freezegun; besides a UTC machine at noon, two zones in which the local calendar day is not the UTC calendar day (00:30 at UTC+2, 19:30 at UTC-8), with datetime.now(tz) made faithful",
            "names/paths outside the alphabet are covered only by the small-scope hypothesis",
        ],
        "exhaustive": True,
    }
    return rep, meta


def replay(case, ctx: F.Ctx) -> F.Outcome:
    return _run_case(ctx, list(case))
