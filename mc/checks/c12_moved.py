"""C12, part 3 — the text `note move` writes for a moved note.

For every note form of a small alphabet, living on a page whose header block and section
headers give it tags and properties it does not write itself (values with blanks, dashes, a
URL, backslashes, a date, a ZID), the real `note move` is run (optionally with a done /
cancelled marker) and the text that arrived on the destination page is judged as C12 states
it: the destination is still a valid page, the note is there exactly once and compiles to a
note with the same kind (or the requested one), ZID, dates, priority (open todos), at
least the links, tags and properties it had before, and the same body once the words the move
inserted after the ZID are taken out again.  (C10 judges the line algebra of both files.)
"""

from __future__ import annotations

import datetime as dt

from mc.core import framework as F
from mc.core import harness as H
from mc.core import zdir as Z
from mc.core import zo

DAY = dt.date(2024, 5, 15)
MZ = "240301#MV"
H1R = "#" * 32
H2R = "=" * 24

KINDS = [("-", None), ("o", None), ("o", "P1"), ("x", None), ("<", "P4"), ("~", None)]
TAILS = ["single", "cont", "bullet", "bprop", "own-meta", "stamped", "headline-prop"]
HEADS = {
    # the header block of the source page: what the moved note inherits
    "plain-values": "# Source page #inh +proj\n# hk::hv\n\n",
    "odd-values": ("# Source page #inh\n# hk::hv [spaced:: two words] [dash:: a-b] [u:: https://ex.com/p/q.html] "
                   "[w:: C:\\notes\\today\\1] [esc:: a\\\\b] [n:: line\\nbreak] [g:: a\\gb] due::2024-06-01 ref::240101#AB "
                   # date- and ZID-shaped values that are NOT a DATE / ZID token of the grammar
                   "[old:: 1999-12-31] [bad:: 2024-13-45] [zz:: 240305#0I]\n\n"),
    "sections": "# Source page %per\n\n" + H1R + " Sec One @ctx sk::sv\n\n" + H2R + " Sub [deep:: x y\\z]\n\n",
}
MARKERS = [None, "x", "~"]
DEST = "# Dest page\n\n- 240201#D1 dest note one\n- 240202#D2 dest note two\n"


def _note_lines(kind, prio, tail):
    pre = kind + (f" {prio}" if prio else "")
    if tail == "stamped":
        first = f"{pre} 240402 {MZ} moved body words"
    elif tail == "headline-prop":
        # the whole rest of the first line is the value of the property q
        first = f"{pre} {MZ} q:: headline value words"
    elif tail == "own-meta":
        first = f"{pre} {MZ} moved body #own [[lk]] ok::ov [oi:: p q] words"
    else:
        first = f"{pre} {MZ} moved body words"
    lines = [first]
    if tail == "cont":
        lines.append("  continued on a second line with a back\\slash")
    elif tail == "bullet":
        lines += ["  * bullet one", "    - nested two"]
    elif tail == "bprop":
        lines += ["  * bk:: bullet value", "  * other:: 2024-06-01"]
    return lines


def cases(ctx):
    out = []
    for hi, head in enumerate(HEADS):
        for ki, (k, p) in enumerate(KINDS):
            for ti, tail in enumerate(TAILS):
                if ctx.quick and (hi + ki + ti) % 2:
                    continue
                for marker in MARKERS:
                    if ctx.quick and marker is not None and (ki + ti) % 3:
                        continue
                    out.append(["moved", head, k, p, tail, marker])
    return out


def _compile(text):
    r = zo.compile_text(text, name="mv.zo")
    if r["exc"] or r["nsyntax"] or r["has_errors"]:
        return None, r
    return [n for n in r["notes"]], r


def run_case(ctx, case) -> F.Outcome:
    from mc.checks.c10 import _strip_added

    _, head, k, p, tail, marker = case
    note = _note_lines(k, p, tail)
    src = HEADS[head] + "- 240101#S1 neighbour one\n" + "\n".join(note) + "\n- 240102#S2 neighbour two\n"
    files = {"src.zo": src, "dest.zo": DEST}
    out = F.Outcome()
    out.nontrivial = H.digest(case)
    zd = Z.make_zdir(files, "c12m")
    try:
        H.freeze(DAY)
        before_notes, r0 = _compile(src)
        if before_notes is None:
            raise H.HarnessError(f"c12 moved: generated source page does not compile: {r0['nsyntax']} {r0['exc']}\n{src}")
        before = next(n for n in before_notes if n["zid"] == MZ)
        r = Z.db_create(zd, DAY)
        if not Z.cli_ok(r) or Z.snapshot(zd, with_meta=False) != files:
            raise H.HarnessError("c12 moved: db create failed or rewrote files: " + r.err[-300:])
        cfg = zd.parent / "cfg.yml"
        H.write_config(cfg)
        mv = H.run_cli(zd, "note", "move", MZ, "dest.zo", *([marker] if marker else []), cfg=cfg, day=DAY)
        after = Z.snapshot(zd, with_meta=False)
        dst = after.get("dest.zo", "")
        problem = None
        if not Z.cli_ok(mv):
            problem = ("move-failed", {"status": mv.status, "exit": mv.value, "stderr": mv.err[-500:]})
        else:
            notes, r1 = _compile(dst)
            if notes is None:
                problem = ("destination-is-not-a-valid-page-after-the-move", {"nsyntax": r1["nsyntax"], "exc": r1["exc"]})
            else:
                got = [n for n in notes if n["zid"] == MZ]
                if len(got) != 1:
                    problem = ("moved-note-not-exactly-once-on-the-destination", {"zids": [n["zid"] for n in notes]})
                else:
                    g = got[0]
                    want_kind = marker or before["kind"]
                    diffs = {}
                    if g["kind"] != want_kind:
                        diffs["kind"] = [want_kind, g["kind"]]
                    for f in ("create", "modify"):
                        if g[f] != before[f]:
                            diffs[f] = [before[f], g[f]]
                    if want_kind in ("o", "<", ">") and g["priority"] != before["priority"]:
                        diffs["priority"] = [before["priority"], g["priority"]]
                    # (a URL that is the value of a property the note now carries itself is one of its links)
                    if not set(before["links"]) <= set(g["links"]):
                        diffs["links"] = [before["links"], g["links"]]
                    for f in ("areas", "contexts", "people", "projects"):
                        if not set(before[f]) <= set(g[f]):
                            diffs[f] = [before[f], g[f]]
                    lost = {kk: vv for kk, vv in before["props"].items() if g["props"].get(kk) != vv}
                    if lost:
                        diffs["props"] = [lost, {kk: g["props"].get(kk) for kk in lost}]
                    if not _strip_added(g["body"], before["body"]):
                        diffs["body"] = [before["body"], g["body"]]
                    if diffs:
                        what = "+".join(sorted(diffs))
                        # narrow class: the note's first word after its ZID is a headline property
                        # ('ZID q:: value ...'); the words the move inserts after the ZID push 'q::' out of
                        # first place, where alone the compiler reads it as a property -- nothing else differs
                        words = before["body"].split("\n")[0].split(" ")
                        kpos = 2 if (len(words) > 2 and words[0].isdigit() and len(words[0]) == 6) else 1
                        hk = words[kpos][:-2] if len(words) > kpos and words[kpos].endswith("::") else None
                        if hk and set(diffs) == {"props"} and set(diffs["props"][0]) == {hk} \
                                and len(g["body"].split("\n")[0].split(" ")) > len(words):
                            what += ":headline-property-pushed-behind-the-inserted-words"
                        problem = ("moved-note-compiles-to-another-note:" + what, diffs)
        out.obs = H.digest([dst, mv.value if mv.status == "ok" else mv.status])
        if problem:
            out.ok = False
            out.sig = "moved:" + problem[0]
            out.detail = {"source": src, "marker": marker, "destination_after": dst, "problem": problem[1]}
    finally:
        Z.drop(zd)
    return out
