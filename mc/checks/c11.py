"""C11 — Modification dates are stamped on exactly the notes that were edited.

Breadth-first search over edit / reindex / day-advance histories on a real
directory.  At every reindex a predictive oracle, fed with the previous index
state (raw rows) and the current files, says exactly which first lines may
change and how; the real result (file bytes and index rows) must equal the
prediction, and an immediately following reindex must change nothing.
"""

from __future__ import annotations

import datetime as dt
import re
from pathlib import Path

from mc.core import bfs as B
from mc.core import dirstate as D
from mc.core import framework as F
from mc.core import harness as H
from mc.core import zdir as Z
from mc.core import zo
from mc.models import edit_model as EM
from mc.models import index_reader as IR
from mc.models import zid_model as ZM

ID = "C11"
LEVEL = "model_checking"
H1R = "#" * 32
_DAYS = [dt.date(2024, 5, 15), dt.date(2025, 2, 27), dt.date(2026, 12, 30)]


def short(d: dt.date) -> str:
    return "%02d%02d%02d" % (d.year % 100, d.month, d.day)


def base_files(day0: dt.date):
    t = short(day0)
    return {
        "p.zo": f"""# P page #pt

- 240101#N1 plain note w0
- 240101#U1 untouched one
o P2 240102#N2 todo with prio w0
- 240102#U2 untouched two
- 240103#N3 multi line w0
  * bullet b0
- 240103#U3 untouched three
- 240401 240104#N4 stamped  earlier, see [240401#0A] of 240401 w0
  * n4 bullet  spaced
  continued line of n4
- 240104#U4 untouched four
- {t}#N5 created today w0
- {t}#U5 untouched five
x P1 240107#N7 finished task
< P1 240109#N9 blocked with priority w0
~ 240108#N8 dropped task

{H1R} Sec s0

- 240105#N6 in section w0
""",
        "sub/p.zo": "# Q page (same file name as the first page, in a sub-directory)\n\n- 240106#Q1 untouched page note\n",
    }


EDIT_WORD = {"edit_N1": "#N1", "edit_N2": "#N2", "edit_N3": "#N3", "edit_N4": "#N4", "edit_N5": "#N5",
             "edit_N6": "#N6", "edit_N9": "#N9"}
EVENTS = list(EDIT_WORD) + ["edit_bullet", "kind_N2", "prio_N2", "add_note", "edit_header",
                            "edit_section", "edit_Q1", "swap_N1_U1", "prio_N7", "kind_N8", "paste_Q1", "R", "D"]


def apply_edit(zd: Path, ev: str, guards: dict) -> bool:
    p = zd / "p.zo"
    t = p.read_text()
    lines = t.split("\n")
    if ev in EDIT_WORD:
        mark = EDIT_WORD[ev]
        for i, l in enumerate(lines):
            if mark in l:
                for k in (0, 1):
                    if l.endswith(f" w{k}"):  # first line of the note
                        lines[i] = l[: -len(f"w{k}")] + f"w{k + 1}"
                        p.write_text("\n".join(lines))
                        return True
        return False
    if ev == "edit_Q1":
        q = zd / "sub/p.zo"
        tq = q.read_text()
        for k in (0, 1):
            if tq.rstrip("\n").endswith(f"note q{k}") or (k == 0 and tq.rstrip("\n").endswith("untouched page note")):
                new_end = "note q1" if k == 0 else "note q2"
                base = tq.rstrip("\n")
                base = base[: -len("note q1")] if k == 1 else base[: -len("note")]
                q.write_text(base + new_end + "\n")
                return True
        return False
    if ev == "paste_Q1":
        # cut from the other page and pasted, ZID and all, directly below N1: on this page
        # the note has no previous index state
        q = zd / "sub/p.zo"
        ql = q.read_text().split("\n")
        mv = [l for l in ql if "#Q1 " in l]
        if not mv:
            return False
        q.write_text("\n".join(l for l in ql if "#Q1 " not in l))
        k = next(i for i, l in enumerate(lines) if "#N1 " in l)
        p.write_text("\n".join(lines[:k + 1] + mv + lines[k + 1:]))
        return True
    if ev == "swap_N1_U1":
        # cut and paste: two notes change places, their text does not change
        if guards.get("swapped", 0) >= 1:
            return False
        i1 = next((i for i, l in enumerate(lines) if "#N1" in l), None)
        i2 = next((i for i, l in enumerate(lines) if "#U1" in l), None)
        if i1 is None or i2 is None:
            return False
        guards["swapped"] = 1
        lines[i1], lines[i2] = lines[i2], lines[i1]
        p.write_text("\n".join(lines))
        return True
    if ev == "edit_bullet":
        for k in (0, 1):
            if f"  * bullet b{k}" in t:
                p.write_text(t.replace(f"  * bullet b{k}", f"  * bullet b{k + 1}"))
                return True
        return False
    if ev == "kind_N2":
        new = re.sub(r"(?m)^o (P\d (?:\d{6} )?240102#N2)", r"x \1", t)
        if new == t:
            return False
        p.write_text(new)
        return True
    if ev == "prio_N2":
        new = re.sub(r"(?m)^([ox]) P2 ((?:\d{6} )?240102#N2)", r"\1 P5 \2", t)
        if new == t:
            return False
        p.write_text(new)
        return True
    if ev == "prio_N7":
        new = re.sub(r"(?m)^x P1 ((?:\d{6} )?240107#N7)", r"x P3 \1", t)
        if new == t:
            return False
        p.write_text(new)
        return True
    if ev == "kind_N8":
        new = re.sub(r"(?m)^~ ((?:\d{6} )?240108#N8)", r"x \1", t)
        if new == t:
            return False
        p.write_text(new)
        return True
    if ev == "add_note":
        n = guards.get("added", 0)
        if n >= 1:
            return False
        guards["added"] = n + 1
        idx = next(i for i, l in enumerate(lines) if "#U1" in l)
        lines.insert(idx + 1, "o P4 freshly added note")
        p.write_text("\n".join(lines))
        return True
    if ev == "edit_header":
        if "#pt2" in lines[0]:
            return False
        lines[0] = lines[0].replace("#pt", "#pt2")
        p.write_text("\n".join(lines))
        return True
    if ev == "edit_section":
        if "Sec s0" not in t:
            return False
        p.write_text(t.replace("Sec s0", "Sec s1"))
        return True
    raise H.HarnessError(ev)


def predict_and_check(zd: Path, day: dt.date):
    """Run one real reindex on `zd` and compare with the prediction."""
    H.freeze(day)
    before_files = Z.snapshot(zd, with_meta=False)
    before_index = IR.read_index(zd)
    compiled = D.compiled_pages(zd)  # the current files, as the compiler reads them
    today = day.isoformat()
    predicted: dict[str, str] = {}
    expect_stamped: list[str] = []
    expect_new: list[tuple[str, int]] = []
    for rel, text in before_files.items():
        lines = text.split("\n")
        old = {n["zid"]: n for n in before_index["pages"].get(rel, {}).get("notes", [])}
        for n in compiled[rel]["notes"]:
            li = n["line"] - 1
            if n["zid"] is None:
                expect_new.append((rel, li))
                continue
            o = old.get(n["zid"])
            if o is None:
                continue
            changed = (n["body"] != o["body"]) or (n["kind"] != o["kind"]) or (n["priority"] != o["priority"])
            if changed and n["modify"] != today:
                lines[li] = EM.predict_stamp_line(lines[li], short(day))
                expect_stamped.append(n["zid"])
        predicted[rel] = "\n".join(lines)
    r = Z.db_reindex(zd, day)
    if not Z.cli_ok(r):
        return ("reindex-failed", {"stderr": r.err[-1200:]}), expect_stamped
    after_files = Z.snapshot(zd, with_meta=False)
    # new notes: ZID inserted as in C05 (value taken from the run, form checked)
    for rel, li in expect_new:
        al = after_files[rel].split("\n")
        pb = EM.split_item_line(al[li]) if li < len(al) else None
        z = EM.first_zid(pb["rest"].split(" ")) if pb else None
        if not z or not ZM.well_formed(z):
            return ("new-note-got-no-zid", {"file": rel, "line": li + 1, "after": al[li] if li < len(al) else None}), expect_stamped
        pl = predicted[rel].split("\n")
        pl[li] = EM.predict_zid_line(pl[li], z)
        predicted[rel] = "\n".join(pl)
    for rel in sorted(set(predicted) | set(after_files)):
        if predicted.get(rel) != after_files.get(rel):
            pl = (predicted.get(rel) or "").split("\n")
            al = (after_files.get(rel) or "").split("\n")
            bl = before_files.get(rel, "").split("\n")
            k = next((i for i, (x, y) in enumerate(zip(pl, al)) if x != y), min(len(pl), len(al)))
            before_l = bl[k] if k < len(bl) else None
            got_l = al[k] if k < len(al) else None
            want_l = pl[k] if k < len(pl) else None
            if want_l == before_l:
                kind = "spurious-change-of-a-line-that-must-not-change"
            elif got_l == before_l:
                kind = "edited-note-not-stamped"
            else:
                kind = "stamped-line-differs-from-prediction"
            return (kind, {"file": rel, "line": k + 1, "before": before_l, "after": got_l, "predicted": want_l,
                           "stamped_set_predicted": expect_stamped}), expect_stamped
    # file and index agree after stamping
    H.freeze(day)
    d = D.diff_index_vs_files(IR.read_index(zd), D.compiled_pages(zd))
    if d:
        return ("index-differs-from-files-after-reindex:" + d["what"], d), expect_stamped
    # an immediately following reindex stamps nothing
    again = Z.copy_zdir(zd, tag="c11r")
    try:
        r2 = Z.db_reindex(again, day)
        if not Z.cli_ok(r2):
            return ("second-reindex-failed", {"stderr": r2.err[-800:]}), expect_stamped
        if Z.snapshot(again, with_meta=False) != after_files:
            return ("second-reindex-changed-files", {"first": after_files, "second": Z.snapshot(again, with_meta=False)}), expect_stamped
        if IR.read_index(again)["pages"] != IR.read_index(zd)["pages"]:
            return ("second-reindex-changed-index", {}), expect_stamped
    finally:
        Z.drop(again)
    return None, expect_stamped


def step(st: B.St, ev: str) -> B.StepResult:
    # the zone of the machine is part of the state: "today" is the LOCAL calendar day, also when
    # the UTC calendar day is another one
    H.set_zone(st.extra.get("zone", "utc-noon"))
    try:
        return _step(st, ev)
    finally:
        H.set_zone()


def _step(st: B.St, ev: str) -> B.StepResult:
    src = Path(st.path)
    guards = dict(st.guards)
    day = st.day
    if ev == "D":
        if guards.get("days", 0) >= 2:
            return B.StepResult(None)
        guards["days"] = guards.get("days", 0) + 1
    zd = Z.copy_zdir(src, with_index=True, tag="c11s")
    problem = None
    judged = False
    nontrivial = False
    try:
        if ev == "D":
            day = day + dt.timedelta(days=1)
        elif ev == "R":
            problem, stamped = predict_and_check(zd, day)
            judged = True
            nontrivial = bool(stamped)
        else:
            if not apply_edit(zd, ev, guards):
                Z.drop(zd)
                return B.StepResult(None)
        hist = st.hist + [ev]
        new = B.St(path=str(zd), day=day, hist=hist, guards=guards, extra=dict(st.extra))
        new.key = H.digest([D.state_digest(zd, day), sorted(guards.items()), st.extra.get("zone", "utc-noon")])
        if problem:
            detail = dict(problem[1])
            detail.update({"history": hist, "day": day.isoformat(), "zone": st.extra.get("zone", "utc-noon")})
            problem = (problem[0], detail)
        return B.StepResult(new, problem, judged, 1, nontrivial=nontrivial)
    except Exception:
        Z.drop(zd)
        raise


def make_inits(day: dt.date):
    base = Z.make_zdir(base_files(day), "c11i")
    r = Z.db_create(base, day)
    if not Z.cli_ok(r):
        raise H.HarnessError("initial db create failed: " + r.err[-500:])
    if Z.snapshot(base, with_meta=False) != base_files(day):
        raise H.HarnessError("initial files were rewritten by db create")
    s0 = B.St(path=str(base), day=day, hist=[], guards={}, extra={"init": "indexed-on-day-0"})
    s0.key = H.digest([D.state_digest(base, day), []])
    inits = [s0]
    # deeper starting points, produced by the real commands: N1 edited and
    # stamped today; N1 edited, stamped, and a day later
    for name, pre in (("N1-stamped-today", ["edit_N1", "R"]), ("N1-stamped-yesterday", ["edit_N1", "R", "D"])):
        zd = Z.copy_zdir(base, tag="c11i")
        g: dict = {}
        d = day
        for ev in pre:
            if ev == "D":
                d = d + dt.timedelta(days=1)
                g["days"] = g.get("days", 0) + 1
            elif ev == "R":
                r = Z.db_reindex(zd, d)
                if not Z.cli_ok(r):
                    raise H.HarnessError("initial reindex failed: " + r.err[-500:])
            else:
                apply_edit(zd, ev, g)
        s = B.St(path=str(zd), day=d, hist=[], guards=g, extra={"init": name, "prefix": pre})
        s.key = H.digest([D.state_digest(zd, d), sorted(g.items())])
        inits.append(s)
    # the same directory on a machine whose local calendar day is not the UTC calendar day
    for zone in ("east-night", "west-evening"):
        zd = Z.copy_zdir(base, tag="c11i")
        s = B.St(path=str(zd), day=day, hist=[], guards={}, extra={"init": "indexed-on-day-0@" + zone, "zone": zone})
        s.key = H.digest([D.state_digest(zd, day), [], zone])
        inits.append(s)
    return inits


def run(ctx: F.Ctx):
    day = H.rotate(_DAYS, ctx.seed)[0]
    H.freeze(day)
    inits = make_inits(day)
    rep = F.Report()
    depths = {"indexed-on-day-0": 3 if ctx.quick else 5, "N1-stamped-today": 3 if ctx.quick else 4,
              "N1-stamped-yesterday": 3 if ctx.quick else 4,
              "indexed-on-day-0@east-night": 2 if ctx.quick else 3, "indexed-on-day-0@west-evening": 2 if ctx.quick else 3}
    depth = depths
    for s in inits:
        rep.merge(B.search(ctx, [s], EVENTS, step, depths[s.extra["init"]], max_states=60000))
    # one long-lived `zorg edit` process that stamps on several occasions, also across midnight
    from mc.checks import sessions

    rep.merge(F.explore(ctx, sessions.cases(ctx), lambda c: _run_session(ctx, c), sample=sessions.sample, day=day))
    rep.samples = rep.samples[:4]
    meta = {
        "rule": (
            "BFS from 5 initial states (a directory indexed on day 0; the same after a note was edited and stamped the same day; the same one day later; the first again on a machine at UTC+2 at 00:30 and at UTC-8 at 19:30, where the local calendar day is not the UTC calendar day, to a smaller depth; plus scripted sessions of ONE long-lived `zorg edit` process that reindexes and stamps several times, with midnight passing while the editor is open, after which index and files must agree) -- the directory holds (a page holding a plain note, a todo with "
            "priority, a multi-line note with a bullet, a note stamped on an earlier day, a note "
            "created today, each next to an untouched neighbour, plus a note in a section and an "
            "untouched second page) over 13 events: edit the body of each of 5 notes (twice each), "
            "edit a bullet line, change a kind, change a priority, add a ZID-less note, edit only "
            "the page header, edit only a section header, reindex, advance the day (at most twice). "
            "At every reindex the oracle predicts, from the previous raw index rows and the "
            "current files, the exact set of first lines that change (stamp inserted/replaced, ZID "
            "inserted for new notes) and compares file bytes; index must equal the recompiled files; "
            "a second reindex must change nothing. Non-trivial = reindex transitions at which the "
            "prediction stamps at least one note."
        ),
        "bounds": {"depth": depth, "events": EVENTS, "frozen_day_0": day.isoformat()},
        "assumptions": ["the current files are read through the real compiler (judged by C01) to learn each note's body and todo state",
                        "no hand-written stamps; time does not advance inside a command"],
        "exhaustive": True,
    }
    return rep, meta


def _run_session(ctx, case) -> F.Outcome:
    from mc.checks import sessions

    try:
        return sessions.run_case(ctx, case, {"index-vs-files", "zids"})
    finally:
        H.freeze(H.rotate(_DAYS, ctx.seed)[0])


def replay(case, ctx: F.Ctx) -> F.Outcome:
    if isinstance(case, list) and case and case[0] == "session":
        return _run_session(ctx, case)
    day = H.rotate(_DAYS, ctx.seed)[0]
    H.freeze(day)
    inits = make_inits(day)
    out = F.Outcome()
    cur = next(s for s in inits if s.extra["init"] == case["init"])
    made = []
    try:
        for ev in case["history"]:
            r = step(cur, ev)
            if r.state is None:
                raise H.HarnessError(f"event {ev} not enabled on replay")
            made.append(r.state.path)
            cur = r.state
            if r.problem:
                out.ok = False
                out.sig = r.problem[0]
                out.detail = r.problem[1]
                break
        return out
    finally:
        for p in made:
            Z.drop(Path(p))
        for s in inits:
            Z.drop(Path(s.path))
