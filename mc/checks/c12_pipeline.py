"""C12 part 2 — ungrouped note selections rendered by the real executor compile
back to exactly the selected notes (directly and through a refreshed .zoq page)."""

from __future__ import annotations

import datetime as dt
import itertools as it

from mc.core import framework as F
from mc.core import harness as H
from mc.core import idx as IX
from mc.core import zo
from mc.models import corpora as C
from mc.models import query_model as Q

DAY = dt.date(2024, 5, 15)
ORDER_KEYS = ["alpha", "create", "modify", "priority", "type", "none"]
FILTERS = [
    None,
    [[["kind", "o<>"]]],
    [[["kind", "-"]], [["kind", "x~"]]],
    [[["tag", "#", "t1", False]]],
    [[["file", "big", False]], [["file", "cee", False]]],
]
_IX: dict[str, IX.Index] = {}


HIST_FILES = {
    "h.zo": """# H page #ht

- 240401 240104#H1 stamped earlier w0
  * pack the  bags
  * due:: next friday
  continued line
o P1 240105#H2 plain todo w0
- 240106#H3 untouched multi
  * keep me
""",
    # a note that was copied to a second page: same text, two notes
    "h2.zo": """# H2 page

- 240101#H0 earliest zid, on the second page
- 240106#H3 untouched multi
  * keep me
- 240107#H4 only here
""",
    # ... and a third page where the copy was EDITED: same ZID, other text
    "h3.zo": """# H3 page

- 240102#H5 early zid on the third page
- 240106#H3 untouched multi, but edited on this page
  * keep me too
""",
}


def _alloc_files():
    """45 notes written without a ZID: the index gives them 45 consecutive ZIDs of one day
    (well past the first characters the allocator has to skip)."""
    kinds = ["-", "o P1", "x", "~", "<", "> P4", "o"]
    lines = ["# Journal page #jr", ""]
    for i in range(45):
        lines.append(f"{kinds[i % len(kinds)]} entry number{i} about +topic{i % 3} w0")
        if i % 6 == 0:
            lines.append(f"  * detail:: value {i}")
            lines.append(f"  second line of entry {i}")
    return {"j.zo": "\n".join(lines) + "\n"}


def _alloc_index():
    """ZIDs assigned by the real `db create`; the reference notes are the page as
    `db create` rewrote it, recompiled."""
    from mc.core import dirstate as D
    from mc.core import zdir as Z

    zd = Z.make_zdir(_alloc_files(), "c12a")
    r = Z.db_create(zd, DAY)
    if not Z.cli_ok(r):
        raise H.HarnessError("c12 alloc setup: create failed " + r.err[-300:])
    H.freeze(DAY)
    notes = []
    for rel, pg in D.compiled_pages(zd).items():
        notes.extend(pg["notes"])
    # every note got a ZID from `db create`; one the page compiler does not read back as a
    # ZID is reported by the cases that use this index
    lost = [n["body"].split("\n")[0] for n in notes if not n["zid"]]
    for k, n in enumerate(notes):
        if not n["zid"]:
            n["zid"] = f"<no ZID read back, note {k}>"
    ix = IX.Index.__new__(IX.Index)
    ix.day = DAY
    ix.zdir = zd
    ix.raw = {"notes": notes, "pages": {}, "problems": lost}
    ix.universe = Q.Universe(notes)
    ix._sess = {}
    return ix


def _hist_index():
    """An index that went through a real history: created on day 0, two notes
    edited and the page reindexed on day 1.  The reference for what the emitted
    text must compile back to is the notes in the FILES (recompiled), not the
    index rows."""
    import datetime as _dt

    from mc.core import dirstate as D
    from mc.core import zdir as Z

    zd = Z.make_zdir(HIST_FILES, "c12h")
    r = Z.db_create(zd, DAY)
    if not Z.cli_ok(r):
        raise H.HarnessError("c12 history setup: create failed " + r.err[-300:])
    t = (zd / "h.zo").read_text()
    (zd / "h.zo").write_text(t.replace("stamped earlier w0", "stamped earlier w1").replace("plain todo w0", "plain todo w1"))
    day1 = DAY + _dt.timedelta(days=1)
    r = Z.db_reindex(zd, day1)
    if not Z.cli_ok(r):
        raise H.HarnessError("c12 history setup: reindex failed " + r.err[-300:])
    H.freeze(day1)
    notes = []
    for rel, pg in D.compiled_pages(zd).items():
        notes.extend(pg["notes"])
    H.freeze(DAY)
    ix = IX.Index.__new__(IX.Index)
    ix.day = day1
    ix.zdir = zd
    ix.raw = {"notes": notes, "pages": {}, "problems": []}
    ix.universe = Q.Universe(notes)
    ix._sess = {}
    return ix


def _index(name):
    ix = _IX.get(name)
    if ix is None and name == "HIST":
        ix = _IX[name] = _hist_index()
    if ix is None and name == "ALLOC":
        ix = _IX[name] = _alloc_index()
    if ix is None:
        files = dict(C.K1) if name == "K1" else dict(C.K4)
        ix = _IX[name] = IX.Index(files, DAY, tag="c12p")
    return ix


def cases(ctx):
    orders = [[k] for k in ORDER_KEYS] + [list(p) for p in it.permutations(ORDER_KEYS, 2)]
    if ctx.quick:
        orders = [[k] for k in ORDER_KEYS] + [list(p) for p in it.permutations(ORDER_KEYS, 2)][ctx.seed % 5::5]
    out = []
    for o in ([None] + [[k] for k in ORDER_KEYS]):
        out.append(["pipe", "HIST", 0, o, "direct"])
        out.append(["pipe", "HIST", 2, o, "direct"])  # with a WHERE filter the rows come back ordered by ZID
    out.append(["pipe", "HIST", 0, ["alpha"], "zoq"])
    for o in (None, ["alpha"], ["type"]):
        out.append(["pipe", "ALLOC", 0, o, "direct"])
    out.append(["pipe", "ALLOC", 0, None, "zoq"])
    for name in ("K1", "K4"):
        for fi in range(len(FILTERS)):
            for o in orders:
                out.append(["pipe", name, fi, o, "direct"])
            out.append(["pipe", name, fi, ["alpha"], "zoq"])
            out.append(["pipe", name, fi, None, "zoq"])
            out.append(["pipe", name, fi, ["alpha"], "zoq2"])
    return out


def _expected_notes(ix, where):
    U = ix.universe
    return {n["zid"]: n for n in U.notes if where is None or Q.holds_or(where, n, U, DAY)}


def _expected_count(ix, where) -> int:
    """Number of selected notes (two notes with the same text on two pages count twice)."""
    U = ix.universe
    return sum(1 for n in U.notes if where is None or Q.holds_or(where, n, U, DAY))


def run_case(ctx, case) -> F.Outcome:
    _, name, fi, order, via = case
    H.freeze(DAY)
    out = F.Outcome()
    where = FILTERS[fi]
    qtext = Q.render_query(["note"], where, order, ["none"])
    base = _index(name)
    problems = []
    if name == "ALLOC" and base.raw["problems"]:
        problems.append(("zid-assigned-by-db-create-is-not-read-back-as-a-zid", {"first_lines": base.raw["problems"][:5]}))
    if via == "direct":
        res, err = base.execute(qtext)
        if err is not None:
            problems.append(("execute-raised", {"error": err}))
            page_text = None
        else:
            page_text = "# round trip\n\n" + res + "\n"
    else:
        from zorg.service import swog

        ix = base.private_copy()
        zq = ix.zdir / "zoq" / "rt.zoq"
        zq.parent.mkdir(exist_ok=True)
        zq.write_text(f"# {qtext}\n")
        try:
            if via == "zoq2":
                # the page was first refreshed with a GROUPED form of the query (its body then
                # holds group-header lines); the user then edits the query line and refreshes
                grouped = Q.render_query(["note"], where, order, ["file"])
                zq.write_text(f"# {grouped}\n")
                swog.refresh_zoq_file(ix.zdir, H.db_url(ix.zdir), zq)
                old = zq.read_text().split("\n")
                zq.write_text("\n".join([f"# {qtext}"] + old[1:]))
            swog.refresh_zoq_file(ix.zdir, H.db_url(ix.zdir), zq)
            page_text = zq.read_text()
            if not page_text.endswith("\n"):
                page_text += "\n"
        except Exception as e:  # noqa: BLE001
            problems.append(("refresh-raised", {"error": f"{type(e).__name__}: {e}"}))
            page_text = None
    want = _expected_notes(base, where)
    if page_text is not None:
        r = zo.compile_text(page_text, name="pipe.zo")
        if r["exc"]:
            problems.append(("rendered-selection-crashes-compiler", {"exc": r["exc"]}))
        elif r["nsyntax"] or r["has_errors"]:
            if want:
                problems.append(("rendered-selection-is-not-a-valid-page", {"nsyntax": r["nsyntax"]}))
            elif page_text.strip() != "# round trip":
                problems.append(("rendered-empty-selection-is-not-a-valid-page", {"nsyntax": r["nsyntax"]}))
        else:
            got = r["notes"]
            gz = [n["zid"] for n in got]
            nwant = _expected_count(base, where)
            U_ = base.universe
            exp_multi = sorted((n_["zid"], n_["kind"], n_["body"]) for n_ in U_.notes
                               if where is None or Q.holds_or(where, n_, U_, DAY))
            got_multi = sorted((n_["zid"], n_["kind"], n_["body"]) for n_ in got)
            if name == "HIST" and exp_multi != got_multi and sorted(set(gz)) == sorted(want) and len(gz) == nwant:
                problems.append(("compiled-notes-are-not-the-selected-notes:same-zid-other-text",
                                 {"expected": exp_multi, "observed": got_multi}))
            elif sorted(set(z for z in gz if z)) != sorted(want) or len(gz) != nwant or (problems and name == "ALLOC"):
                problems.append(("compiled-notes-are-not-the-selected-notes", {"expected": sorted(want), "expected_count": nwant, "observed": gz}))
            else:
                dup = {z for z in gz if gz.count(z) > 1}
                for n in got:
                    if n["zid"] in dup:
                        continue  # judged as a multiset above
                    w = want[n["zid"]]
                    for f in ("kind", "body", "create", "modify"):
                        if n[f] != w[f]:
                            problems.append((f"compiled-note-differs:{f}", {"zid": n["zid"], "expected": w[f], "observed": n[f]}))
                    if w["kind"] in ("o", "<", ">") and n["priority"] != w["priority"]:
                        problems.append(("compiled-note-differs:priority", {"zid": n["zid"]}))
                    # own metadata: whatever the note's text carries must come back
                    for f in ("areas", "contexts", "people", "projects", "links"):
                        if not set(n[f]) <= set(w[f]):
                            problems.append((f"compiled-note-has-foreign-{f}", {"zid": n["zid"], "observed": n[f], "indexed": w[f]}))
    out.obs = H.digest([page_text])
    out.nontrivial = H.digest(case)
    if problems:
        out.ok = False
        out.sig = "pipeline:" + problems[0][0]
        out.detail = {"index": name, "query": qtext, "via": via, "problem": problems[0][1], "page": page_text}
    return out


def drop_all():
    for ix in _IX.values():
        ix.drop()
    _IX.clear()
