"""C15 — A saved-query reference filters like the saved query's WHERE clause.

All acyclic assignments of saved clauses (conjunctions, alternatives, nested
references, S/O/G wrappers) to three saved-query names x a family of referencing
queries, on an index built by the real `db create`.  The real expansion +
execution must select exactly the notes that satisfy, under the set-algebra
model, the surrounding filter AND the saved clause substituted as a
sub-expression (recursively).  A missing name must be an error.
"""

from __future__ import annotations

import datetime as dt
import itertools as it

from mc.core import framework as F
from mc.core import harness as H
from mc.core import idx as IX
from mc.core import qwf
from mc.models import corpora as C
from mc.models import query_model as Q

ID = "C15"
LEVEL = "exploration"
DAY = dt.date(2024, 5, 15)
NAMES = ["qa", "qb.v2", "qc"]
DECOYS = {"qb": "# W #nosuchtag", "q": "# W +nosuchproject", "qb.v": "# W @nosuchctx"}
_IX: dict[str, IX.Index] = {}

PLAIN = [
    [[["tag", "#", "t1", False]]],
    [[["kind", "o"]]],
    [[["tag", "#", "t1", False], ["tag", "+", "j1", False]]],
    [[["kind", "o"]], [["kind", "-"]]],
    [[["sub", [[["kind", "o"]], [["kind", "-"]]]], ["tag", "#", "t1", False]]],
    [[["desc", "lower case", "'", False, False]]],
    [[["create", ["short", "240101"], ["short", "240131"]]]],
    # backslashes in quoted text are literal characters
    [[["desc", "a\\b", "'", False, False]]],
    [[["desc", "o\\d", "'", False, False], ["tag", "#", "t1", False]]],
    # a priority range and a kind: atoms that POOL with their like inside one conjunction
    [[["prio", 0, 1], ["tag", "#", "t1", False]]],
    [[["kind", "x~"]]],
    # top-level alternatives that begin and end with a parenthesised group
    [[["sub", [[["kind", "o"], ["tag", "#", "t1", False]]]]], [["sub", [[["kind", "-"], ["tag", "+", "j1", False]]]]]],
]


def ref_clauses(target: str):
    return [
        [[["ref", target]]],
        [[["ref", target], ["tag", "+", "j1", False]]],
        [[["tag", "#", "t1", False]], [["ref", target]]],
        [[["ref", target]], [["sub", [[["tag", "@", "c1", False]]]]]],
    ]


def clause_options(k: int, quick: bool):
    """Clauses assignable to NAMES[k] (references only to later names)."""
    opts = list(PLAIN)
    for later in NAMES[k + 1:]:
        opts += ref_clauses(later)
    later = NAMES[k + 1:]
    if len(later) >= 2:
        # two different saved queries referenced from one clause: when the first of them
        # references the second as well, that page is reached along two acyclic paths
        opts.append([[["ref", later[0]], ["ref", later[1]]]])
        opts.append([[["ref", later[1]]], [["ref", later[0]], ["tag", "+", "j1", False]]])
    return opts


X = ["file", "ab", False]
Y = ["tag", "@", "c1", True]
D1 = ["desc", "first", "'", False, False]
D2 = ["desc", "lower", "'", False, False]
K = ["kind", "o"]
P = ["prio", 1, 3]


def referencing_queries():
    a, b = ["ref", "qa"], ["ref", "qb.v2"]
    return [
        ("W {a}", None, [[a]]),
        ("W X {a}", None, [[X, a]]),
        ("W {a} X", None, [[a, X]]),
        ("W X {a} Y", None, [[X, a, Y]]),
        ("W {a} | X", None, [[a], [X]]),
        ("W X | {a}", None, [[X], [a]]),
        ("W ({a}) X", None, [[["sub", [[a]]], X]]),
        ("W {a} {b}", None, [[a, b]]),
        ("S count(note) W {a}", ["count", ["note"]], [[a]]),
        ("W Y ({a} | X)", None, [[Y, ["sub", [[a], [X]]]]]),
        ("W {a} X | Y {a}", None, [[a, X], [Y, a]]),
        ("W ({a}) ({b}) | {a}", None, [[["sub", [[a]]], ["sub", [[b]]]], [a]]),
        # the reference stands between two quoted description filters
        ("W D1 {a} D2", None, [[D1, a, D2]]),
        # a kind / a priority range of the surrounding filter next to the reference
        ("W K {a}", None, [[K, a]]),
        ("W {a} P", None, [[a, P]]),
        # the same reference twice: first as a whole alternative, then next to another atom
        ("W {a} | X {a}", None, [[a], [X, a]]),
        ("W ({a} | Y) (X {a} | {b})", None, [[["sub", [[a], [Y]]], ["sub", [[X, a], [b]]]]]),
    ]


def render_with_refs(or_) -> str:
    def r_atom(a):
        if a[0] == "ref":
            return "{" + a[1] + "}"
        if a[0] == "sub":
            return "(" + r_or(a[1]) + ")"
        return Q.render_atom(a)

    def r_or(o):
        return " | ".join(" ".join(r_atom(a) for a in and_) for and_ in o)

    return r_or(or_)


def substitute_textual(or_, env):
    """What a purely TEXTUAL splice means: a saved clause without alternatives is put into
    the surrounding conjunction as it is (its kinds / priorities then pool with those of the
    surrounding filter); only clauses with alternatives are kept together."""
    out = []
    for and_ in or_:
        na = []
        for a in and_:
            if a[0] == "ref":
                clause = substitute_textual(env[a[1]], env)
                if len(clause) == 1:
                    na.extend(clause[0])
                else:
                    na.append(["sub", clause])
            elif a[0] == "sub":
                na.append(["sub", substitute_textual(a[1], env)])
            else:
                na.append(a)
        out.append(na)
    return out


def substitute(or_, env):
    """Replace every reference by the saved clause as a sub-expression."""
    out = []
    for and_ in or_:
        na = []
        for a in and_:
            if a[0] == "ref":
                na.append(["sub", substitute(env[a[1]], env)])
            elif a[0] == "sub":
                na.append(["sub", substitute(a[1], env)])
            else:
                na.append(a)
        out.append(na)
    return out


def wrap(clause_text: str, style: int) -> str:
    if style == 0:
        return f"# W {clause_text}"
    if style == 1:
        return f"# S note W {clause_text} O priority G file"
    if style == 3:
        # hand-written with irregular blanks around the clause keywords
        return f"# S note  W  {clause_text}  G file  O alpha "
    return f"# W {clause_text} G file O alpha"


def _index() -> IX.Index:
    ix = _IX.get("K1")
    if ix is None:
        ix = _IX["K1"] = IX.Index(C.K1, DAY, tag="c15")
    return ix


def _safe_expand(zdir, qtext):
    """expand_saved_queries, with an exception turned into a value: ('raised', message)."""
    from zorg.service.swog._saved_queries import expand_saved_queries as _exp

    try:
        return _exp(zdir, qtext)
    except Exception as e:  # noqa: BLE001
        return ("raised", f"{type(e).__name__}: {e}")


def _run_case_from_sub(ctx, case) -> F.Outcome:
    """The same case with the process's working directory inside the notes directory, in a
    sub-directory that has a zoq/ of its own (a decoy `qa`, and a `nosuch` that exists only there):
    saved queries are looked up under <notes directory>/zoq, wherever the command is started."""
    import os

    ix = _index().private_copy()
    proj = ix.zdir / "proj" / "zoq"
    proj.mkdir(parents=True, exist_ok=True)
    (proj / "qa.zoq").write_text("# W +nosuchproject\n")
    (proj / "nosuch.zoq").write_text("# W #t1\n")
    (proj / "outer.zoq").write_text("# W #t1\n")
    old = os.getcwd()
    os.chdir(proj.parent)
    try:
        res = _run_case(ctx, case[1:])
    finally:
        os.chdir(old)
    if not res.ok:
        res.detail["started_from"] = "<notes directory>/proj (which has a zoq/ directory of its own)"
    if res.nontrivial:
        res.nontrivial = H.digest(case)
    return res


def _run_case(ctx, case) -> F.Outcome:
    if case[0] == "from-sub":
        return _run_case_from_sub(ctx, case)
    expand_saved_queries = _safe_expand

    kind = case[0]
    if kind == "nested-edit":
        return _run_nested_edit(ctx, case)
    if kind == "subdir":
        return _run_subdir(ctx, case)
    ix = _index().private_copy()
    H.freeze(DAY)
    out = F.Outcome()
    zoq = ix.zdir / "zoq"
    zoq.mkdir(exist_ok=True)
    for p in zoq.glob("*.zoq"):
        p.unlink()
    # the notes directory as the user may have spelled it: canonical, through a symlink, with a
    # '..' in it, with a doubled slash (all absolute; the saved pages are the same files)
    zarg = ix.zdir
    if kind == "zdirform":
        form = case[1]
        case = case[2:]
        kind = case[0]
        if form == "symlink":
            zarg = ix.zdir.parent / "lnk"
            if not zarg.is_symlink():
                zarg.symlink_to(ix.zdir)
        elif form == "dotdot":
            (ix.zdir.parent / "x").mkdir(exist_ok=True)
            zarg = type(ix.zdir)(str(ix.zdir.parent) + "/x/../" + ix.zdir.name)
        elif form == "double-slash":
            zarg = str(ix.zdir.parent) + "//" + ix.zdir.name
        else:
            raise H.HarnessError(form)
        _inner = expand_saved_queries

        def expand_saved_queries(_z, q):  # noqa: F811
            return _inner(zarg, q)
    if kind == "missing":
        _, qtext = case
        (zoq / "qb.zoq").write_text("# W #t1\n")  # exists: prefix of the missing qb.v3
        (zoq / "outer.zoq").write_text("# W o {inner} G file\n")  # refers to a page that does not exist
        (zoq / "outer2.zoq").write_text("# S note W {outer} | - O alpha\n")
        exp = expand_saved_queries(ix.zdir, qtext)
        res, err = ix.execute(qtext)
        out.obs = H.digest([exp, err])
        out.nontrivial = H.digest(case)
        if isinstance(exp, tuple):
            out.ok = False
            out.sig = "expansion-raised"
            out.detail = {"query": qtext, "error": exp[1]}
        elif exp is not None or err is None:
            out.ok = False
            out.sig = "missing-saved-query-not-reported"
            out.detail = {"query": qtext, "expansion": exp, "execute_result": res, "execute_error": err}
        return out
    _, ia, ib, ic, style, qi = case
    idxs = [ia, ib, ic]
    env = {}
    for k, name in enumerate(NAMES):
        clause = clause_options(k, False)[idxs[k]] if not ctx.quick or k != 2 else clause_options(k, True)[idxs[k]]
        env[name] = clause
        (zoq / f"{name}.zoq").write_text(wrap(render_with_refs(clause), (style + k) % 4) + "\n# extra header line\n")
    for dname, dtext in DECOYS.items():
        # saved pages whose names are prefixes of a referenced name; never referenced themselves
        (zoq / f"{dname}.zoq").write_text(dtext + "\n")
    label, select, where = referencing_queries()[qi]
    qtext = ("S " + Q.render_select(select) + " " if select else "") + "W " + render_with_refs(where)
    U = ix.universe
    full = substitute(where, env)
    want = sorted(n["zid"] for n in U.notes if Q.holds_or(full, n, U, DAY))
    exp = expand_saved_queries(ix.zdir, qtext)
    problem = None
    got = None
    if isinstance(exp, tuple):
        problem = ("expansion-raised", {"error": exp[1]})
        exp = None
    elif exp is None:
        problem = ("expansion-failed", {})
    else:
        ok, why = qwf.wellformed(exp)
        if not ok:
            problem = ("expansion-not-well-formed", {"why": why})
        elif "{" in exp:
            problem = ("reference-left-unexpanded", {})
        else:
            if select:
                res, err = ix.execute(exp)
                if err is not None:
                    problem = ("execute-raised", {"error": err})
                elif res.strip() != str(len(want)):
                    problem = ("count-differs", {"observed": res, "expected": len(want)})
                got = res
            else:
                got, err = ix.where_zids(exp)
                if err is not None:
                    problem = ("execute-raised", {"error": err})
                elif sorted(got) != want:
                    problem = ("selected-notes-differ", {"expected": want, "observed": sorted(got)})
    out.obs = H.digest([exp, got])
    if 0 < len(want) < len(U.notes):
        out.nontrivial = H.digest([case[1:]])
    if problem:
        out.ok = False
        out.sig = problem[0] + (":saved-clause-with-alternatives" if _any_alt_reachable(where, env) else "")
        if problem[0] in ("selected-notes-differ", "count-differs"):
            # narrow class: the result is exactly what a textual splice means, and it differs
            # from the intended meaning only because kinds / priorities pooled across the splice
            textual = sorted(n["zid"] for n in U.notes if Q.holds_or(substitute_textual(where, env), n, U, DAY))
            same = (sorted(got) == textual) if not select else (str(got).strip() == str(len(textual)))
            if same and textual != want:
                out.sig = problem[0] + ":kinds-or-priorities-pool-across-the-splice"
        out.detail = {"saved": {n: wrap(render_with_refs(env[n]), 0) for n in NAMES},
                      "query": qtext, "expanded": exp, "model_query": "W " + Q.render_or(full), **problem[1]}
    return out


# saved query pages in sub-directories of zoq/ (`zorg query -s` itself writes zoq/tmp/...): a name is
# always looked up from zoq/, also when the page that mentions it lives in a sub-directory
SUBDIR_ENV = {
    "qa": [[["tag", "#", "t1", False]]],
    "phone/calls": [[["kind", "o"], ["ref", "qa"]]],
    "phone/qa": [[["tag", "#", "t2", False]]],                      # same page name as the flat one: a different clause
    "phone/deep/x": [[["ref", "phone/calls"]], [["ref", "qa"], ["tag", "+", "j1", False]]],
    "phone/uses_its_neighbour": [[["ref", "phone/qa"], ["kind", "-"]]],
}
SUBDIR_QUERIES = [
    (None, [[["ref", "phone/calls"]]]), (None, [[["ref", "phone/deep/x"]]]), (None, [[["ref", "phone/deep/x"], ["tag", "@", "c1", True]]]),
    (None, [[["ref", "phone/uses_its_neighbour"]]]), (None, [[["ref", "phone/qa"]], [["ref", "qa"], ["kind", "o"]]]),
    (["count", ["note"]], [[["ref", "phone/calls"]]]), (None, [[["tag", "+", "j1", False], ["ref", "phone/calls"]]]),
]


def _run_subdir(ctx, case) -> F.Outcome:
    _, qi, style = case
    ix = _index().private_copy()
    H.freeze(DAY)
    out = F.Outcome()
    zoq = ix.zdir / "zoq"
    zoq.mkdir(exist_ok=True)
    import shutil

    for p in zoq.glob("*.zoq"):
        p.unlink()
    shutil.rmtree(zoq / "phone", ignore_errors=True)
    for name, clause in SUBDIR_ENV.items():
        f = zoq / f"{name}.zoq"
        f.parent.mkdir(parents=True, exist_ok=True)
        f.write_text(wrap(render_with_refs(clause), style) + "\n")
    select, where = SUBDIR_QUERIES[qi]
    qtext = ("S " + Q.render_select(select) + " " if select else "") + "W " + render_with_refs(where)
    U = ix.universe
    full = substitute(where, SUBDIR_ENV)
    want = sorted(n["zid"] for n in U.notes if Q.holds_or(full, n, U, DAY))
    exp = _safe_expand(ix.zdir, qtext)
    problem, got = None, None
    if isinstance(exp, tuple):
        problem = ("expansion-raised", {"error": exp[1]})
        exp = None
    elif exp is None:
        problem = ("expansion-failed", {})
    elif "{" in exp:
        problem = ("reference-left-unexpanded", {})
    else:
        ok, why = qwf.wellformed(exp)
        if not ok:
            problem = ("expansion-not-well-formed", {"why": why})
        elif select:
            res, err = ix.execute(exp)
            got = res
            if err is not None:
                problem = ("execute-raised", {"error": err})
            elif res.strip() != str(len(want)):
                problem = ("count-differs", {"observed": res, "expected": len(want)})
        else:
            got, err = ix.where_zids(exp)
            if err is not None:
                problem = ("execute-raised", {"error": err})
            elif sorted(got) != want:
                problem = ("selected-notes-differ", {"expected": want, "observed": sorted(got)})
    out.obs = H.digest([exp, got])
    if 0 < len(want) < len(U.notes):
        out.nontrivial = H.digest(case)
    if problem:
        out.ok = False
        out.sig = "saved-pages-in-sub-directories:" + problem[0]
        out.detail = {"saved": {n: wrap(render_with_refs(c), style) for n, c in SUBDIR_ENV.items()}, "query": qtext,
                      "expanded": exp, "model_query": "W " + Q.render_or(full), **problem[1]}
    return out


def _run_nested_edit(ctx, case) -> F.Outcome:
    """Same process: expand {outer} (outer -> {inner}), then rewrite or delete ONLY the
    inner page, expand {outer} again.  Every expansion must reflect the pages as they are."""
    from zorg.service.swog._saved_queries import expand_saved_queries

    _, i1, i2, delete = case
    ix = _index().private_copy()
    H.freeze(DAY)
    out = F.Outcome()
    zoq = ix.zdir / "zoq"
    zoq.mkdir(exist_ok=True)
    for p in zoq.glob("*.zoq"):
        p.unlink()
    U = ix.universe
    outer = [[["ref", "inner"], ["tag", "+", "j1", False]]]
    (zoq / "outer.zoq").write_text(wrap(render_with_refs(outer), 1) + "\n")
    problems = []
    steps = [PLAIN[i1], PLAIN[i2]]
    for k, clause in enumerate(steps):
        (zoq / "inner.zoq").write_text(wrap(render_with_refs(clause), k % 3) + "\n")
        env = {"outer": outer, "inner": clause}
        where = [[["ref", "outer"]]]
        want = sorted(n["zid"] for n in U.notes if Q.holds_or(substitute(where, env), n, U, DAY))
        exp = expand_saved_queries(ix.zdir, "W {outer}")
        got, err = (None, "expansion failed") if exp is None else ix.where_zids(exp)
        if err is not None or sorted(got) != want:
            problems.append((f"selected-notes-differ-after-nested-page-was-rewritten:step{k}",
                             {"inner": wrap(render_with_refs(clause), 0), "expanded": exp, "expected": want,
                              "observed": got, "error": err}))
    if delete:
        (zoq / "inner.zoq").unlink()
        exp = expand_saved_queries(ix.zdir, "W {outer}")
        if exp is not None:
            problems.append(("missing-nested-saved-query-not-reported-after-deletion", {"expanded": exp}))
    out.obs = H.digest([p[0] for p in problems])
    out.nontrivial = H.digest(case)
    if problems:
        out.ok = False
        out.sig = problems[0][0].split(":")[0]
        out.detail = {"case": case, "problem": problems[0][1], "all": [p[0] for p in problems]}
    return out


def _has_top_or(clause) -> bool:
    return len(clause) > 1


def _any_alt_reachable(where, env) -> bool:
    """Does the query (transitively) reference a saved clause with top-level '|'?"""
    seen = set()

    def walk(or_):
        for and_ in or_:
            for a in and_:
                if a[0] == "ref":
                    if a[1] not in seen:
                        seen.add(a[1])
                        if len(env[a[1]]) > 1:
                            return True
                        if walk(env[a[1]]):
                            return True
                elif a[0] == "sub":
                    if walk(a[1]):
                        return True
        return False

    return walk(where)


def _cases(ctx):
    cases = []
    na = len(clause_options(0, ctx.quick))
    nb = len(clause_options(1, ctx.quick))
    nc = len(clause_options(2, ctx.quick))
    nq = len(referencing_queries())
    for ia, ib, ic in it.product(range(na), range(nb), range(nc)):
        styles = (0, 1, 2, 3) if not ctx.quick else ((ia + ib + ic) % 4,)
        for style in styles:
            for qi in range(nq):
                cases.append(["ref", ia, ib, ic, style, qi])
    for i1 in range(len(PLAIN)):
        for i2 in range(len(PLAIN)):
            if i1 != i2:
                cases.append(["nested-edit", i1, i2, (i1 + i2) % 2 == 0])
    for qi in range(len(SUBDIR_QUERIES)):
        for style in ((0, 1, 2, 3) if not ctx.quick else (qi % 4, (qi + 2) % 4)):
            cases.append(["subdir", qi, style])
    for qi in range(nq):
        cases.append(["from-sub", "ref", qi % na, (qi * 3) % nb, (qi * 5) % nc, qi % 4, qi])
    for qtext in ("W {nosuch}", "W {qb} {nosuch}", "W {outer}"):
        cases.append(["from-sub", "missing", qtext])
    for qi in range(len(SUBDIR_QUERIES)):
        cases.append(["from-sub", "subdir", qi, qi % 4])
    for fi, form in enumerate(("symlink", "dotdot", "double-slash")):
        for qi in range(nq):
            cases.append(["zdirform", form, "ref", (qi + fi) % na, (qi * 3 + fi) % nb, (qi * 5 + fi) % nc, (qi + fi) % 4, qi])
        for qtext in ("W {nosuch}", "W {qb} {nosuch}", "W {outer}"):
            cases.append(["zdirform", form, "missing", qtext])
    for qtext in ("W {nosuch}", "W o {nosuch}", "S count(note) W {nosuch} #t1", "W {qb} {nosuch}",
                  "W #t1 | {nosuch}", "W 'first' {nosuch} 'lower'", "W \"a\" {nosuch} \"b\" o", "W {qb.v3}", "W {qb.}", "W {outer}", "W #t1 {outer2}", "W {qb} | {outer}"):
        cases.append(["missing", qtext])
    return cases


def _sample(ctx, case):
    if case[0] == "from-sub":
        return dict(_sample(ctx, case[1:]), started_from="<notes directory>/proj")
    if case[0] == "subdir":
        return {"saved": {n: wrap(render_with_refs(c), case[2]) for n, c in SUBDIR_ENV.items()},
                "query": "W " + render_with_refs(SUBDIR_QUERIES[case[1]][1])}
    if case[0] == "zdirform":
        return dict(_sample(ctx, case[2:]), notes_directory_spelled_with=case[1])
    if case[0] == "nested-edit":
        return {"outer": "# S note W {inner} +j1 O priority G file", "inner_first": render_with_refs(PLAIN[case[1]]),
                "inner_then": render_with_refs(PLAIN[case[2]]), "then_deleted": case[3]}
    if case[0] == "missing":
        return {"query": case[1], "saved": {"qb": "# W #t1"}}
    _, ia, ib, ic, style, qi = case
    idxs = [ia, ib, ic]
    saved = {}
    for k, name in enumerate(NAMES):
        opts = clause_options(k, ctx.quick if k == 2 else False)
        saved[f"zoq/{name}.zoq"] = wrap(render_with_refs(opts[idxs[k]]), (style + k) % 4)
    return {"saved": saved, "query": referencing_queries()[qi][0]}


def run(ctx: F.Ctx):
    H.freeze(DAY)
    cases = _cases(ctx)
    _index()
    try:
        rep = F.explore(ctx, cases, lambda c: _run_case(ctx, c), sample=lambda c: _sample(ctx, c),
                        day=DAY, twice_every=499)
    finally:
        for ix in _IX.values():
            ix.drop()
        _IX.clear()
    meta = {
        "rule": (
            "saved clauses: 8 reference-free clauses (tag, kind, conjunction, alternatives 'o | -', '(o #t1) | (- +j1)', "
            "'(o | -) #t1', two-word quoted text, date range) + 3 referencing forms per later name "
            "({x}, {x} +j1, #t1 | {x}, {x} | (@c1)); every acyclic assignment to qa, qb, qc (references only to "
            "later names), saved pages written as '# W ..', '# S note W .. "
            "O priority G file', '# W .. G file O alpha' (thorough: all three rotations); x 10 "
            "referencing queries ({a} alone, with atoms before/after/both, as alternative on either "
            "side, parenthesised, {a} {b}, count(note), inside a parenthesised alternative); + 5 "
            "queries naming a missing saved query. Oracle: model evaluation with every reference "
            "substituted as a sub-expression. Non-trivial = expected result neither empty nor all."
        ),
        "bounds": {"cases": len(cases), "names": NAMES},
        "assumptions": ["acyclic saved-query sets only (as the statement says)",
                        "a saved page with no W clause is not explored (the statement does not define it)"],
        "exhaustive": True,
    }
    return rep, meta


def replay(case, ctx: F.Ctx) -> F.Outcome:
    try:
        return _run_case(ctx, list(case))
    finally:
        for ix in _IX.values():
            ix.drop()
        _IX.clear()
