"""C04 — Query text is compiled into the structure its syntax denotes.

Exhaustive small-scope enumeration of abstract queries (select forms, filter
trees of every shape up to a bound, all 64 priority-range spellings, every date
form on calendar-edge days, ordering/grouping lists, both clause orders); each is
rendered, must pass the grammar's well-formedness gate, is compiled by the real
`build_zorg_query`, and the returned structure is compared with the one the
abstract query denotes.  Render -> compile -> compare is the round trip in both
directions (the abstract query *is* the structure).
"""

from __future__ import annotations

import datetime as dt
import itertools as it

from mc.core import framework as F
from mc.core import harness as H
from mc.core import qcanon, qwf
from mc.models import query_model as Q

ID = "C04"
LEVEL = "exploration"

_NAME_POOLS = [
    ("foo", "Bar_2", "k", "pg"),
    ("zeta", "X_y9", "due", "page1"),
    ("alpha", "Q7_z", "key", "notes"),
]
_DAYS_BASE = [dt.date(2024, 5, 15), dt.date(2025, 7, 9), dt.date(2026, 9, 26)]
EDGE_DAYS = [
    dt.date(2024, 1, 31), dt.date(2023, 2, 28), dt.date(2024, 2, 29),
    dt.date(2024, 3, 31), dt.date(2024, 8, 31), dt.date(2024, 12, 31),
]
SELECTS = [("file",), ("note",), ("prop",), ("links",), ("@",), ("#",), ("+",), ("%",)]
ORDER_KEYS = ["alpha", "create", "modify", "priority", "type", "none"]
GROUP_ATOMS = ["file", "section", "type", "priority", "@", "#", "%", "+", "none"]
KEYWORD_IDS = ["file", "none", "type", "priority", "alpha", "create", "modify", "section"]


def _names(seed):
    return H.rotate(_NAME_POOLS, seed)[0]


def _all_selects(seed):
    a, b, k, pg = _names(seed)
    sels = [list(s) for s in SELECTS] + [["propvals", k], ["propvals", "file"]]
    out = list(sels)
    out += [["count", s] for s in sels]
    return out


def _single_atoms(seed):
    a, b, k, pg = _names(seed)
    atoms = []
    for chars in ("-", "o", "x", "~", "<", ">", "-~", "<>", "o~", "-o<", "x~>"):
        atoms.append(["kind", chars])
    for n in range(10):
        atoms.append(["prio", n, None])
        for m in range(max(n, 1), 10):
            atoms.append(["prio", n, m])
    for sym in "#@%+":
        for name in (a, b, "file", "1a", "o", "2401", "P1"):
            for neg in (False, True):
                atoms.append(["tag", sym, name, neg])
    for neg in (False, True):
        atoms.append(["prop", k, "exists", None, neg])
        for op in ("=", "<", "<=", ">", ">="):
            # '1_0', '1_000': digits joined by underscores are words, not integers
            for val in ("2024-06-01", "10", "0", "007", "123456", a, b, "none", "x", "1_0", "1_000", "2024_06_01",
                        "2024", "1234", "2411", "12315"):
                atoms.append(["prop", k, op, val, neg])
    # (texts that begin or end with the OTHER kind of quote keep it)
    for text in (a, b, f"two {a}", "o%b", "a_b", "x\\y", "it's" if False else "q\"q", "'tis", "rock 'n'", '"hello"', "'", '"'):
        for quote in ("'", '"'):
            if quote in text:
                continue
            for cflag in (False, True):
                for neg in (False, True):
                    atoms.append(["desc", text, quote, cflag, neg])
    for glob in (pg, "p*", "*s", "*p*", f"dir/{pg}", "a_b", "*_b", "d/e/f"):
        for neg in (False, True):
            atoms.append(["file", glob, neg])
    for name in (pg, f"dir/{pg}", "o"):
        for neg in (False, True):
            atoms.append(["link", name, neg])
    return atoms


def _core_atoms(seed, n):
    a, b, k, pg = _names(seed)
    core = [
        ["kind", "o"], ["tag", "#", a, False], ["prio", 1, 2], ["kind", "-"],
        ["tag", "+", b, True], ["prop", k, ">", "10", False], ["desc", a, "'", False, False],
        ["file", pg, False], ["link", pg, True], ["create", ["short", "240101"], None],
    ]
    return core[:n]


def _date_specs():
    # two-digit years on both sides of strptime's %y pivot: all of them mean 20YY
    specs = [["short", "240101"], ["short", "231231"], ["short", "680229"], ["short", "690101"], ["short", "991231"],
             ["short", "000101"]]
    for n in (0, 1, 2, 11, 12, 13, 31, 366):
        for unit in "dmy":
            for past in (False, True):
                specs.append(["rel", n, unit, past])
    return specs


def _cases(ctx):
    seed = ctx.seed
    base = H.rotate(_DAYS_BASE, seed)[0].isoformat()
    a, b, k, pg = _names(seed)
    cases = []

    def q(day, select, where, order, group, gfirst=False, nl=False):
        cases.append(["q", day, select, where, order, group, gfirst, nl])

    # A. select forms, with and without a where clause / trailing newline
    for sel in _all_selects(seed):
        q(base, sel, None, None, None)
        q(base, sel, [[["kind", "o"]]], None, None)
        q(base, sel, [[["tag", "#", a, False]]], ["alpha"], ["file"], False, True)
    # B1. every single atom (incl. all 64 priority spellings); pairs with a kind
    singles = _single_atoms(seed)
    for at in singles:
        q(base, None, [[at]], None, None)
        q(base, ["note"], [[["kind", "x"], at]], None, None)
        q(base, None, [[at], [["kind", "-"]]], None, None)
    # pooled kinds / priorities in one group and across alternatives
    for p1 in ([1, None], [0, 3], [5, 9]):
        for p2 in ([2, None], [2, 4], [9, None]):
            for k1 in ("o", "-~"):
                for k2 in ("x", "<>"):
                    q(base, None, [[["prio", *p1], ["kind", k1], ["prio", *p2], ["kind", k2]]], None, None)
                    q(base, None, [[["prio", *p1], ["kind", k1]], [["prio", *p2], ["kind", k2]]], None, None)
    # B2. expression shapes
    if ctx.quick:
        plan = [(1, 2, 10), (2, 2, 10), (3, 1, 10), (3, 2, 4)]
    else:
        plan = [(1, 2, 10), (2, 2, 10), (3, 2, 10), (4, 1, 5)]
    for nleaves, depth, natoms in plan:
        core = _core_atoms(seed, natoms)
        for shape in Q.or_shapes(nleaves, depth):
            for atoms in it.product(core, repeat=nleaves):
                q(base, None, Q.fill(shape, list(atoms)), None, None)
    # C. date atoms on calendar-edge days
    specs = _date_specs()
    ends = [None, ["short", "240131"], ["rel", 0, "d", False], ["rel", 1, "m", False],
            ["rel", 1, "m", True], ["rel", 1, "y", False], ["rel", 31, "d", True]]
    days = [base] + [d.isoformat() for d in EDGE_DAYS]
    for day in days:
        for head in ("create", "modify"):
            for s in specs:
                for e in (ends if (ctx.quick is False or day != base) else ends[:3]):
                    q(day, None, [[[head, s, e]]], None, None)
    # C2. the same relative spec compiled on two different days in ONE process:
    # nothing resolved against an earlier "today" may be carried over
    edge = [d.isoformat() for d in EDGE_DAYS]
    for s in specs:
        if s[0] != "rel":
            continue
        for d1, d2 in ((base, edge[0]), (edge[1 % len(edge)], base), (edge[-1], edge[0])):
            cases.append(["seq", [d1, d2], [[["create", s, None]]]])
            cases.append(["seq", [d1, d2], [[["modify", ["short", "240131"], s]]]])
    # C3. the machine is not on UTC and the local calendar day is not the UTC calendar day (just
    # after midnight east of UTC, in the evening west of it): "today" is the local day
    for zone in ("east-night", "west-evening"):
        for day in (base, edge[0], edge[-1]):
            for s in specs:
                if s[0] == "rel":
                    cases.append(["zone", zone, ["q", day, None, [[["create", s, None]]], None, None, False, False]])
                    cases.append(["zone", zone, ["q", day, None, [[["modify", ["short", "240131"], s]]], None, None,
                                                 False, False]])
    # D. ordering / grouping lists, clause order, omitted clauses
    orders = [None] + [list(o) for n in (1, 2) for o in it.product(ORDER_KEYS, repeat=n)]
    orders.append(list(ORDER_KEYS))
    groups = [None] + [list(g) for n in (1, 2) for g in it.product(GROUP_ATOMS, repeat=n)]
    groups += [list(g) for g in it.product(["file", "#", "none"], repeat=4)]
    groups += [list(g) for g in it.product(["section", "priority", "+"], repeat=3)]
    where1 = [[["kind", "o"], ["tag", "@", b, False]]]
    for o in orders:
        for g in groups:
            if ctx.quick and o is not None and g is not None and len(o) == 2 and len(g) >= 2 \
                    and (hash((tuple(o), tuple(g))) % 4):
                # quick: all lists up to length 2 on each side, every pair of a
                # length-2 list with a longer list only for a quarter of them
                continue
            for gfirst in (False, True):
                if gfirst and (o is None or g is None):
                    continue
                q(base, None, where1, o, g, gfirst)
            if o is not None or g is not None:
                q(base, ["#"], None, o, g, False)
    # identifiers: keywords are legal identifiers everywhere an id is expected
    for kw in KEYWORD_IDS + ["1a", "9", "o", "x", "P1", "249901", "240101#0A", "1230"]:
        if kw == "9":
            continue
        val = a if kw[:6].isdigit() else kw  # ':' + 6 date-shaped digits lexes as a range tail
        q(base, None, [[["tag", "#", kw, False], ["prop", kw, "=", val, False]]], None, None)
        if not kw[:6].isdigit():
            q(base, ["propvals", kw], None, None, None)
    # E. the CLI normalisation function
    for body in ("#a", "o #a", "#a G file", "#a O alpha", "#a O alpha G file", "#a G file O alpha"):
        for prefix in ("", "W ", "S note W ", "S # W ", "S file W ", "S count(note) W "):
            cases.append(["process", prefix + body])
    return cases


def _run_case(ctx, case) -> F.Outcome:
    out = F.Outcome()
    if case[0] == "process":
        return _process_case(case[1])
    if case[0] == "zone":
        H.set_zone(case[1])
        try:
            res = _run_case(ctx, case[2])
        finally:
            H.set_zone()
        if not res.ok:
            res.detail["zone"] = dict(zip(("hours_east_of_utc", "local_hour", "local_minute"), H.ZONES[case[1]]))
        res.nontrivial = H.digest(case)
        return res
    if case[0] == "seq":
        last = None
        for n, d in enumerate(case[1]):
            last = _run_case(ctx, ["q", d, None, case[2], None, None, False, False])
            if not last.ok:
                if n:
                    last.sig = "after-compiling-on-another-day:" + last.sig
                    last.detail["compiled_before_on"] = case[1][:n]
                return last
        last.nontrivial = H.digest(case)
        return last
    _, day_s, select, where, order, group, gfirst, nl = case
    day = dt.date.fromisoformat(day_s)
    H.freeze(day)
    from zorg.service.compiler import build_zorg_query

    text = Q.render_query(_t(select), _t(where), order, group, gfirst, nl)
    ok, why = qwf.wellformed(text)
    if not ok:
        out.ok = False
        out.sig = "generated-query-rejected-by-grammar"
        out.detail = {"query": text, "why": why}
        out.obs = H.digest(["rejected", why])
        return out
    want = F.jsonable(Q.expected_query(_t(select), _t(where), order, group, day))
    try:
        got = F.jsonable(qcanon.canon_query(build_zorg_query(text)))
        exc = None
    except Exception as e:  # noqa: BLE001
        got, exc = None, f"{type(e).__name__}: {e}"
    out.obs = H.digest(got if exc is None else exc)
    out.nontrivial = H.digest(text + day_s)
    if exc is not None:
        out.ok = False
        out.sig = "compile-raised:" + exc.split(":")[0]
        out.detail = {"query": text, "day": day_s, "exc": exc}
    elif got != want:
        diff = [k for k in want if want[k] != got.get(k)]
        sub = ""
        if diff == ["where"]:
            sub = ":" + _where_diff_kind(want["where"], got["where"])
        out.ok = False
        out.sig = "structure-differs:" + "+".join(diff) + sub
        out.detail = {"query": text, "day": day_s, "expected": want, "observed": got}
    return out


def _where_diff_kind(w, g) -> str:
    """Name the first differing field of the filter tree (for signatures)."""
    if w is None or g is None or len(w) != len(g):
        return "alternatives"
    for aw, ag in zip(w, g):
        for k in aw:
            if k == "subs":
                if len(aw[k]) != len(ag[k]):
                    return "subfilter-attachment"
                for sw, sg in zip(aw[k], ag[k]):
                    r = _where_diff_kind(sw, sg)
                    if r:
                        return r
            elif aw[k] != ag.get(k):
                return k
    return ""


def _t(x):
    """JSON round trip turns tuples into lists; the model accepts both."""
    return x


def _process_case(qtext: str) -> F.Outcome:
    from zorg.app.config import _process_query

    out = F.Outcome()
    kw = {"command": "query", "query": qtext}
    _process_query(kw)
    got = kw["query"]
    want = qtext
    if not want.startswith(("S ", "W ")):
        want = "W " + want
    if not want.startswith("S ") and " G " not in want:
        want = want + " G file"
    if want.startswith("S ") and not want.startswith("S note") and " O " not in want:
        want = want + " O alpha"
    out.obs = H.digest(got)
    out.nontrivial = H.digest("process" + qtext)
    ok, why = qwf.wellformed(got)
    if got != want:
        out.ok = False
        out.sig = "cli-normalisation"
        out.detail = {"input": qtext, "expected": want, "observed": got}
    elif not ok:
        out.ok = False
        out.sig = "cli-normalisation-yields-ill-formed-query"
        out.detail = {"input": qtext, "observed": got, "why": why}
    return out


def _sample(case):
    if case[0] == "process":
        return {"cli_query": case[1]}
    if case[0] == "zone":
        return dict(_sample(case[2]), zone=case[1])
    if case[0] == "seq":
        return {"query": Q.render_query(None, _t(case[2]), None, None, False, False),
                "compiled_in_one_process_on": case[1]}
    _, day_s, select, where, order, group, gfirst, nl = case
    return {"query": Q.render_query(select, where, order, group, gfirst, nl), "frozen_day": day_s}


def run(ctx: F.Ctx):
    cases = _cases(ctx)
    rep = F.explore(ctx, cases, lambda c: _run_case(ctx, c), sample=_sample, twice_every=997)
    meta = {
        "rule": (
            "select: 8 fields + prop:KEY, each also under count(); where: every single atom of "
            "the structural alphabet (11 kind runs, all 64 priority spellings, 4x7x2 tags incl. "
            "keyword/digit-leading/look-alike names, 6 operators x 9 values x negation incl. "
            "existence, quoted text x 2 quotes x c x !, 8 file globs, 3 link names) alone, next to "
            "a kind, and as one of two alternatives; pooled kinds/priorities; every expression "
            "shape (E := And ('|' And)*, And := (atom | '(' E ')')+) with up to 3 leaves and "
            "paren depth <= 2 (quick: depth 2 over 4 atoms, depth 1 over 10; thorough: depth 2 over "
            "10 atoms and 4 leaves depth 1 over 5); ^/$ x 50 start specs x 7 end forms on 7 frozen "
            "days (ordinary, Jan 31, Feb 28, Feb 29, Mar 31, Aug 31, Dec 31); all order lists of "
            "length <= 2 + default + a 6-list x all group lists of length <= 2 + 4-lists over 3 atoms "
            "x both clause orders x omitted clauses; keyword identifiers; the CLI normalisation "
            "function. Every generated string must pass the grammar's well-formedness gate. "
            "Non-trivial = every (query text, day) pair; distinct by digest."
        ),
        "bounds": {"cases": len(cases), "edge_days": [d.isoformat() for d in EDGE_DAYS]},
        "assumptions": [
            "identifiers from the documented alphabet minus the grammar's literal tokens and minus "
            "6-digit calendar-shaped words (the query lexer reads those as dates, so they are not identifiers there)",
            "file globs are compared in the implementation's stored form (glob + '.zo' unless it ends with '*')",
            "the value type of an existence filter is not compared (there is no value)",
        ],
        "exhaustive": True,
    }
    return rep, meta


def replay(case, ctx: F.Ctx) -> F.Outcome:
    return _run_case(ctx, list(case))
