"""C16 — Template initialisation never overwrites existing files.

Every ordered pattern map up to a size bound over 6 patterns x target paths
(existing / missing, matching 0, 1 or 2 patterns, in a new sub-directory,
without extension) x overwrite flag x explicit template x variable maps, through
the real `init_from_template`; a subset through the real CLI entry points.  The
oracle renders the first matching pattern's template body itself with jinja2.
"""

from __future__ import annotations

import datetime as dt
import itertools as it
import re
from pathlib import Path

from mc.core import framework as F
from mc.core import harness as H
from mc.core import zdir as Z

ID = "C16"
LEVEL = "exploration"
DAY = dt.date(2024, 5, 15)

PATTERNS = [
    r"notes\.zo",
    r".*",
    r"(?P<date>[0-9]{8})\.zo",
    r"(?P<name>[a-z]+)_log\.zo",
    r"sub/.*",
    r"zzz_nomatch",
    r"oth",                       # matches 'other.zo' as a prefix only
    r"(?P<name>[a-z]+)_l",        # prefix of 'work_log.zo'
    r"(?P<name>[a-z]+)(?P<opt>_zzz)?\.zo",   # an optional group that takes no part in the match
    r"(?P<name>[a-z]*)_log\.zo",             # a group that takes part in the match and may capture nothing
]
TARGETS = ["notes.zo", "20240304.zo", "work_log.zo", "sub/new/deep.zo", "noext", "other.zo", "20241399.zo",
           "20240131.zo", "20240430.zo", "20240229.zo", "_log.zo"]
VARMAPS = [{}, {"name": "given"}, {"date": "20240102"}, {"date": "20241231"},
           {"name": "R&D <a> 'q' \"dq\" {x}"},  # a value is written as it is, whatever characters it has
           {"lead": "## inbox"}]                  # ... also when it looks like the header marker of a template line


def template_text(i) -> str:
    # the line that ends the template's header block is empty, or holds only blanks / a tab (what an
    # editor's auto-indent leaves behind): by the rule it is a blank line all the same
    sep = {0: "", 1: "  ", 2: "\t"}[i % 3] if isinstance(i, int) else ""
    return (
        f"# Template T{i} header\n# ^ = [[template]]\n{sep}\n"
        f"## Page from T{i} for {{{{ name | default('nobody') }}}}\n##\n## ^ = [[parent]]\n\n"
        f"{{% if date %}}- dated {{{{ date.strftime('%Y-%m-%d') }}}}{{% endif %}}\n"
        f"- body of T{i} ## not a header\n"
        f"{{{{ lead | default('- 240105#LD a line that') }}}} starts with a variable\n"
    )


def model_body(text: str) -> str:
    """Template body: header block (up to the first blank line) dropped,
    '## ' -> '# ' and a bare '##' -> '#'."""
    lines = text.split("\n")
    k = next(i for i, l in enumerate(lines) if not l.strip())
    out = []
    for l in lines[k + 1:]:
        if l.startswith("## ") or l.strip() == "##":
            l = l[1:]
        out.append(l)
    return "\n".join(out)


def model_vars(vm: dict) -> dict:
    out = {}
    for k, v in vm.items():
        if isinstance(v, str) and re.match(r"^[0-9]{4}[01][0-9][0-3][0-9]$", v):
            v = dt.datetime(int(v[:4]), int(v[4:6]), int(v[6:8]))
        out[k] = v
    return out


def model_render(tmpl_i, vm: dict) -> str:
    import jinja2

    return jinja2.Template(model_body(template_text(tmpl_i))).render(model_vars(vm) | {"dt": dt})


def _resolved(target: str) -> str:
    return target if "." in target else target + ".zo"


def expected(pmap, target, exists, overwrite, explicit, vm):
    """-> (should_exist, content or None meaning 'unchanged / whatever it was')."""
    rel = _resolved(target)
    if exists and not overwrite:
        return True, None
    chosen = "x" if explicit else None
    vars_ = dict(vm)
    for pi in pmap:
        m = re.compile(PATTERNS[pi]).match(rel)
        if m:
            chosen = pi
            # a group that took no part in the match captured nothing
            vars_.update({k: v for k, v in m.groupdict().items() if v is not None})
            break
    if chosen is None:
        return exists, None
    try:
        return True, model_render(chosen, vars_)
    except Exception:  # noqa: BLE001
        # e.g. a date-shaped capture that is not a calendar date: the statement
        # does not say what such a template renders to
        return exists, "<unspecified>"


def _setup(pmap, target, exists):
    files = {f"t{i}.zot": template_text(i) for i in range(len(PATTERNS))}
    files["tx.zot"] = template_text("x")
    if exists == 2:
        files[_resolved(target)] = ""  # an existing file of zero bytes is an existing file
    elif exists:
        files[_resolved(target)] = "# existing page\n\n- 240101#E1 precious user text\n"
    return Z.make_zdir(files, "c16")


def _fresh_tmp():
    import zorg.service.templates  # noqa: F401  (make sure the module is loaded)

    H.private_template_dir()


def _run_two_inits(ctx, case) -> F.Outcome:
    """Two initialisations in ONE process from templates that share a base name
    but live in different directories (each must render its own template)."""
    from zorg.service.templates import init_from_template

    _, order, gap = case
    H.freeze(DAY)
    out = F.Outcome()
    files = {
        "work/log.zot": "# work tmpl\n\n## Work log for {{ name }}\n\no review work inbox\n",
        "home/log.zot": "# home tmpl\n\n## Home log for {{ name }}\n\n- water the plants\n",
        "log.zot": "# top tmpl\n\n## Top log for {{ name }}\n",
    }
    zd = Z.make_zdir(files, "c16")
    try:
        import jinja2

        pmap = {re.compile(r"work/(?P<name>[a-z]+)\.zo"): Path("work/log.zot"),
                re.compile(r"home/(?P<name>[a-z]+)\.zo"): Path("home/log.zot"),
                re.compile(r"(?P<name>[a-z]+)_top\.zo"): Path("log.zot")}
        targets = {"w": ("work/alpha.zo", "work/log.zot", "alpha"), "h": ("home/beta.zo", "home/log.zot", "beta"),
                   "t": ("gamma_top.zo", "log.zot", "gamma")}
        problems = []
        for k in order:
            tgt, tmpl, name = targets[k]
            if gap:
                # make the template file older than anything rendered so far
                import os
                import time as _t
                old = _t.time() - 3600
                os.utime(zd / tmpl, (old, old))
            try:
                init_from_template(zd, pmap, Path(tgt))
            except Exception as e:  # noqa: BLE001
                problems.append(("raised", {"target": tgt, "error": f"{type(e).__name__}: {e}"}))
                continue
            want = jinja2.Template(model_body(files[tmpl])).render({"name": name, "dt": dt})
            got = (zd / tgt).read_text() if (zd / tgt).exists() else None
            if got != want:
                problems.append(("content-differs-from-first-matching-template:same-basename-templates",
                                 {"target": tgt, "template": tmpl, "expected": want, "observed": got}))
        out.obs = H.digest([order, problems])
        out.nontrivial = H.digest(case)
        if problems:
            out.ok = False
            out.sig = problems[0][0]
            out.detail = {"order_of_initialisations": order, "problem": problems[0][1]}
    finally:
        Z.drop(zd)
    return out


FAKE_EDITOR = """#!/bin/sh
# stands in for vim: records what every file argument looks like when the editor opens
for a in "$@"; do
  if [ -f "$a" ]; then
    cp "$a" "$ZORG_VERIF_SNAP/$(basename "$a")"
    # like vim on :wq, leave the file ending in a newline
    if [ -n "$(tail -c1 "$a")" ]; then echo >> "$a"; fi
  fi
done
exit 0
"""


def _run_route(ctx, case) -> F.Outcome:
    """The same contract through the other entry points: `zorg edit TARGET` (with a stand-in
    editor that records the file as it is when the editor opens) and `zorg action open` on a
    line holding [[TARGET]]."""
    import os
    import yaml

    route, pmap, ti, exists = case[:4]
    via_symlink = len(case) > 4 and case[4]
    target = TARGETS[ti]
    rel = _resolved(target)
    zd = _setup(pmap, target, exists)
    out = F.Outcome()
    try:
        H.freeze(DAY)
        (zd / "opener.zo").write_text(f"# opener\n\n- 240102#P7 see [[{rel[:-3]}]] here\n")
        r = Z.db_create(zd, DAY)
        if not Z.cli_ok(r):
            raise H.HarnessError("c16 route setup: db create failed " + r.err[-300:])
        path = zd / rel
        before = path.read_bytes() if path.exists() else None
        dirs_before = sorted(str(p.relative_to(zd)) for p in zd.rglob("*") if p.is_dir())
        snap = zd.parent / "snap"
        snap.mkdir()
        ed = zd.parent / "fake-editor.sh"
        ed.write_text(FAKE_EDITOR)
        ed.chmod(0o755)
        cfg = zd.parent / "cfg.yml"
        with open(cfg, "w") as f:
            yaml.dump({"template_pattern_map": {PATTERNS[pi]: f"t{pi}.zot" for pi in pmap},
                       "vim_exe": str(ed), "keep_alive_file": str(zd.parent / "keep-alive")}, f, sort_keys=False)
        os.environ["ZORG_VERIF_SNAP"] = str(snap)
        real_zd = zd
        if via_symlink:
            # the notes directory is reached through a symbolic link (e.g. ~/org -> ~/Dropbox/org)
            link = zd.parent / "linked-org"
            link.symlink_to(zd, target_is_directory=True)
            zd = link
        if route == "edit":
            r = H.run_cli(zd, "edit", target, cfg=cfg, day=DAY)
            at_open = (snap / Path(rel).name).read_bytes() if (snap / Path(rel).name).exists() else None
        else:
            r = H.run_cli(zd, "action", "open", "opener.zo", "3", cfg=cfg, day=DAY)
            at_open = path.read_bytes() if path.exists() else None
        dirs_after = sorted(str(p.relative_to(zd)) for p in zd.rglob("*") if p.is_dir())
        should_exist, content = expected(pmap, target, exists, False, False, {})
        problem = None
        if content == "<unspecified>":
            if exists and at_open != before:
                problem = ("existing-file-touched", {"before": before, "when_opened": at_open})
        elif not Z.cli_ok(r):
            problem = ("raised", {"status": r.status, "exit": r.value, "stderr": r.err[-500:]})
        elif exists and at_open != before:
            problem = ("existing-file-touched", {"before": before, "when_opened": at_open})
        elif not should_exist and (at_open is not None or (route == "open" and dirs_after != dirs_before)):
            problem = ("something-created-without-a-matching-template", {"file": at_open, "dirs": dirs_after})
        elif should_exist and at_open is None:
            problem = ("nothing-written-although-a-pattern-matches", {})
        elif content is not None and at_open is not None and at_open.decode() != content:
            problem = ("content-differs-from-first-matching-template", {"expected": content, "observed": at_open.decode()})
        zd = real_zd
        if problem is None and route == "open" and Z.cli_ok(r) and not any(
                f"EDIT {d / rel}" in r.out for d in ({real_zd, real_zd.parent / "linked-org"} if via_symlink else {real_zd})):
            problem = ("page-link-not-opened", {"stdout": r.out[-300:]})
        out.obs = H.digest([at_open, Z.cli_ok(r)])
        if exists or content is not None:
            out.nontrivial = H.digest(case)
        if problem:
            out.ok = False
            out.sig = problem[0] + ":" + route
            out.detail = {"via": route, "patterns": [PATTERNS[pi] for pi in pmap], "target": target, "exists": exists,
                          "problem": problem[1]}
    finally:
        Z.drop(zd)
    return out


def _run_leak(ctx, case) -> F.Outcome:
    """Two initialisations in ONE process: the first target's pattern captures a variable,
    the second one's does not - the second page is rendered from ITS path only."""
    import os
    import yaml
    from zorg.service.templates import init_from_template

    _, mode, first_ti = case
    H.freeze(DAY)
    out = F.Outcome()
    zd = _setup([], "work_log.zo", False)
    try:
        # pattern 3 captures `name`, pattern 2 captures `date`; pattern 0 (notes.zo) captures nothing
        order = [3, 2, 0]
        first, second = TARGETS[first_ti], "notes.zo"
        problems = []
        if mode in ("fn", "fn-dict"):
            pmap = {re.compile(PATTERNS[pi]): Path(f"t{pi}.zot") for pi in order}
            mine: dict = {}
            for tgt in (first, second):
                init_from_template(zd, pmap, Path(tgt), var_map=mine if mode == "fn-dict" else None)
            if mine:
                problems.append(("callers-variable-map-was-modified", {"map_after": {k: str(v) for k, v in mine.items()}}))
        else:
            r = Z.db_create(zd, DAY)
            if not Z.cli_ok(r):
                raise H.HarnessError("c16 leak setup: db create failed " + r.err[-300:])
            snap = zd.parent / "snap"
            snap.mkdir()
            ed = zd.parent / "fake-editor.sh"
            ed.write_text(FAKE_EDITOR)
            ed.chmod(0o755)
            cfg = zd.parent / "cfg.yml"
            with open(cfg, "w") as f:
                yaml.dump({"template_pattern_map": {PATTERNS[pi]: f"t{pi}.zot" for pi in order},
                           "vim_exe": str(ed), "keep_alive_file": str(zd.parent / "keep-alive")}, f, sort_keys=False)
            os.environ["ZORG_VERIF_SNAP"] = str(snap)
            H.run_cli(zd, "edit", first, second, cfg=cfg, day=DAY)
        for tgt in (first, second):
            _, want = expected(order, tgt, False, False, False, {})
            if mode == "edit":
                pth = zd.parent / "snap" / Path(tgt).name
            else:
                pth = zd / tgt
            got = pth.read_text() if pth.exists() else None
            if got != want:
                problems.append(("content-differs-from-first-matching-template:after-an-earlier-initialisation-in-the-process",
                                 {"target": tgt, "initialised_before": first if tgt == second else None,
                                  "expected": want, "observed": got}))
        out.obs = H.digest([mode, first, [p[0] for p in problems]])
        out.nontrivial = H.digest(case)
        if problems:
            out.ok = False
            out.sig = problems[0][0]
            out.detail = {"mode": mode, "targets_in_order": [first, second], "problem": problems[0][1]}
    finally:
        Z.drop(zd)
    return out


def _run_shared(ctx, case) -> F.Outcome:
    """Several patterns map to the SAME template file: the variables still come from the
    first pattern that matches."""
    from zorg.service.templates import init_from_template

    _, pmap, ti = case
    target = TARGETS[ti]
    H.freeze(DAY)
    out = F.Outcome()
    zd = _setup([], target, False)
    try:
        err = None
        try:
            init_from_template(zd, {re.compile(PATTERNS[pi]): Path("tx.zot") for pi in pmap}, Path(target))
        except Exception as e:  # noqa: BLE001
            err = f"{type(e).__name__}: {e}"
        rel = _resolved(target)
        first = next((pi for pi in pmap if re.compile(PATTERNS[pi]).match(rel)), None)
        path = zd / rel
        got = path.read_text() if path.exists() else None
        problem = None
        if first is None:
            if got is not None:
                problem = ("something-created-without-a-matching-template", {"file": got})
        else:
            m = re.compile(PATTERNS[first]).match(rel)
            vars_ = {k: v for k, v in m.groupdict().items() if v is not None}
            try:
                want = model_render("x", vars_)
            except Exception:  # noqa: BLE001
                want = None
            if want is not None and (err or got != want):
                problem = ("content-differs-from-first-matching-template:patterns-share-one-template",
                           {"expected": want, "observed": got, "error": err})
        out.obs = H.digest([got, err])
        out.nontrivial = H.digest(case)
        if problem:
            out.ok = False
            out.sig = problem[0]
            out.detail = {"patterns_in_order": [PATTERNS[pi] for pi in pmap], "all_map_to": "tx.zot", "target": target,
                          "problem": problem[1]}
    finally:
        Z.drop(zd)
    return out


def _run_case(ctx, case) -> F.Outcome:
    if case[0] == "shared":
        return _run_shared(ctx, case)
    if case[0] == "leak":
        return _run_leak(ctx, case)
    if case[0] == "two":
        return _run_two_inits(ctx, case)
    if case[0] in ("edit", "open"):
        return _run_route(ctx, case)
    mode, pmap, ti, exists, overwrite, explicit, vi = case
    target, vm = TARGETS[ti], VARMAPS[vi]
    zd = _setup(pmap, target, exists)
    out = F.Outcome()
    try:
        H.freeze(DAY)
        path = zd / _resolved(target)
        before = path.read_bytes() if path.exists() else None
        mt_before = path.stat().st_mtime_ns if path.exists() else None
        dirs_before = sorted(str(p.relative_to(zd)) for p in zd.rglob("*") if p.is_dir())
        err = None
        for _ in range(2):  # doing it twice equals doing it once
            if mode == "fn":
                from zorg.service.templates import init_from_template

                try:
                    init_from_template(
                        zd, {re.compile(PATTERNS[pi]): Path(f"t{pi}.zot") for pi in pmap}, Path(target),
                        template=Path("tx.zot") if explicit else None, var_map=dict(vm) or None,
                        should_overwrite_existing=overwrite)
                except Exception as e:  # noqa: BLE001
                    err = f"{type(e).__name__}: {e}"
            else:
                cfg = zd.parent / "cfg.yml"
                import yaml

                with open(cfg, "w") as f:
                    yaml.dump({"template_pattern_map": {PATTERNS[pi]: f"t{pi}.zot" for pi in pmap}}, f, sort_keys=False)
                args = ["template", "init"] + (["-f"] if overwrite else []) + (["-t", "tx.zot"] if explicit else [])
                args += [target] + [f"{k}={v}" for k, v in vm.items()]
                r = H.run_cli(zd, *args, cfg=cfg, day=DAY)
                if not Z.cli_ok(r):
                    err = f"cli {r.status} {r.value}: {r.err[-400:]}"
            if _ == 0:
                after_first = path.read_bytes() if path.exists() else None
        after = path.read_bytes() if path.exists() else None
        mt_after = path.stat().st_mtime_ns if path.exists() else None
        dirs_after = sorted(str(p.relative_to(zd)) for p in zd.rglob("*") if p.is_dir())
        should_exist, content = expected(pmap, target, exists, overwrite, explicit, vm)
        bad_date = content == "<unspecified>"
        problem = None
        if err and not bad_date:
            problem = ("raised", {"error": err})
        elif bad_date:
            if exists and not overwrite and (after != before or mt_after != mt_before):
                problem = ("existing-file-touched", {"before": before, "after": after})
        elif exists and not overwrite and (after != before or mt_after != mt_before):
            problem = ("existing-file-touched", {"before": before, "after": after})
        elif not should_exist and (after is not None or dirs_after != dirs_before):
            problem = ("something-created-without-a-matching-template", {"file": after, "dirs": dirs_after})
        elif should_exist and after is None:
            problem = ("nothing-written-although-a-pattern-matches", {})
        elif content is not None and after is not None and after.decode() != content:
            problem = ("content-differs-from-first-matching-template", {"expected": content, "observed": after.decode()})
        elif after_first != after:
            problem = ("second-invocation-changed-the-file", {"first": after_first, "second": after})
        out.obs = H.digest([after, err])
        if exists or content is not None:
            out.nontrivial = H.digest(case)
        if problem:
            out.ok = False
            out.sig = problem[0] + (":cli" if mode == "cli" else "")
            out.detail = {"patterns": [PATTERNS[pi] for pi in pmap], "target": target, "exists": exists,
                          "overwrite": overwrite, "explicit_template": explicit, "vars": vm, "problem": problem[1]}
    finally:
        Z.drop(zd)
    return out


def expected_match_index(pmap, target):
    rel = _resolved(target)
    for pi in pmap:
        if re.compile(PATTERNS[pi]).match(rel):
            return pi
    return None


def _cases(ctx):
    maxk = 2 if ctx.quick else 3
    maps = [[]]
    for k in range(1, maxk + 1):
        maps += [list(p) for p in it.permutations(range(len(PATTERNS)), k)]
    cases = []
    for pmap in maps:
        for ti in range(len(TARGETS)):
            for exists in (False, True, 2):
                for overwrite in (False, True):
                    for explicit in (False, True):
                        for vi in range(len(VARMAPS)):
                            if exists == 2 and (vi or len(pmap) > 1):
                                continue
                            if ctx.quick and len(pmap) == 2 and vi >= 2 and overwrite:
                                continue
                            if ctx.quick and ti >= 7 and (explicit or vi == 1):
                                continue
                            cases.append(["fn", pmap, ti, exists, overwrite, explicit, vi])
    # several initialisations in one process from same-named templates
    for order in it.permutations("wht", 3):
        for gap in (False, True):
            cases.append(["two", list(order), gap])
    for order in it.permutations("wht", 2):
        cases.append(["two", list(order), True])
    # through the CLI: every map of size <= 1 plus a few pairs
    cli_maps = [[]] + [[i] for i in range(len(PATTERNS))] + [[1, 0], [0, 1], [2, 1], [3, 4]]
    for pmap in cli_maps:
        for ti in range(len(TARGETS)):
            if ti == 6:
                continue
            for exists in (False, True, 2):
                for overwrite in (False, True):
                    explicit = (ti + len(pmap)) % 2 == 0
                    cases.append(["cli", pmap, ti, exists, overwrite, explicit, (ti + overwrite + len(pmap)) % 3])
    # overlapping patterns that share one template file
    for pm in it.permutations(range(len(PATTERNS)), 2):
        for ti in (0, 1, 2, 5):
            cases.append(["shared", list(pm), ti])
    # a variable captured for one page must not reach the next page initialised in the process
    for mode in ("fn", "fn-dict", "edit"):
        for first_ti in (2, 1):  # work_log.zo captures name, 20240304.zo captures date
            cases.append(["leak", mode, first_ti])
    # through `zorg edit` and through opening a page link
    for route in ("edit", "open"):
        for pmap in [[]] + [[i] for i in range(len(PATTERNS))] + [[1, 0], [0, 1], [7, 3]]:
            for ti in (0, 1, 2, 3, 5, 7):
                for exists in (False, True):
                    cases.append([route, pmap, ti, exists])
        for pmap in ([0], [2], [3], [1, 0], [8]):
            for ti in (0, 1, 2, 5):
                for exists in (False, True):
                    cases.append([route, pmap, ti, exists, True])
    return cases


def _sample(case):
    if case[0] == "shared":
        return {"patterns_in_order_all_mapping_to_one_template": [PATTERNS[pi] for pi in case[1]], "target": TARGETS[case[2]]}
    if case[0] == "leak":
        return {"two_initialisations_in_one_process": [TARGETS[case[2]], "notes.zo"], "via": case[1]}
    if case[0] in ("edit", "open"):
        return {"via": "zorg edit TARGET (stand-in editor)" if case[0] == "edit" else "zorg action open on a line with [[TARGET]]",
                "pattern_map_in_order": [PATTERNS[pi] for pi in case[1]], "target": TARGETS[case[2]], "target_exists": case[3],
                "notes_directory_reached_through_a_symlink": len(case) > 4 and case[4]}
    if case[0] == "two":
        return {"two_initialisations_in_one_process": case[1], "templates": ["work/log.zot", "home/log.zot", "log.zot"]}
    mode, pmap, ti, exists, overwrite, explicit, vi = case
    return {"via": mode, "pattern_map_in_order": [PATTERNS[pi] for pi in pmap], "target": TARGETS[ti],
            "target_exists": exists, "overwrite": overwrite, "explicit_template": explicit, "vars": VARMAPS[vi]}


def run(ctx: F.Ctx):
    cases = _cases(ctx)
    rep = F.explore(ctx, cases, lambda c: _run_case(ctx, c), sample=_sample, init=_fresh_tmp, day=DAY,
                    twice_every=499)
    meta = {
        "rule": (
            "every ordered pattern map of size <= 2 (quick) / <= 3 (thorough) over 6 patterns (a "
            "literal name, '.*', a named date group, a named word group, 'sub/.*', one that never "
            "matches) x 7 targets (matching the literal and '.*', the date pattern, the word pattern, "
            "in a new sub-directory, without extension, matching only '.*', a date-shaped name that "
            "is not a calendar date) x {missing, existing} x overwrite flag x {no, explicit} "
            "template x 3 variable maps, through the real init_from_template; plus 10 maps through "
            "the `zorg template init` CLI with the map read from a YAML config in order; plus every order of "
            "two/three initialisations in one process from templates that share a base name in "
            "different directories; plus 12 maps x 6 targets x {missing, existing} through `zorg edit TARGET` (a stand-in "
            "editor records the file as it is when the editor opens) and through `zorg action open` on a line "
            "holding [[TARGET]]. Oracle: "
            "existing and not forced => bytes and mtime unchanged; otherwise content == own jinja2 "
            "rendering of the first matching pattern's template body with captured groups over "
            "given variables (date-like strings as datetimes); no match and no explicit template => "
            "no file and no directory; second invocation changes nothing. Non-trivial = the target "
            "exists or something must be written."
        ),
        "bounds": {"cases": len(cases), "patterns": PATTERNS, "targets": TARGETS},
        "assumptions": ["the per-process template scratch directory of ZorgTemplateManager is re-created per worker (process-global state)",
                        "`note move` reaches the same function and is exercised by C10's template-made destinations"],
        "exhaustive": True,
    }
    return rep, meta


def replay(case, ctx: F.Ctx) -> F.Outcome:
    _fresh_tmp()
    return _run_case(ctx, list(case))
