"""Independent model of ZID suffixes (no zorg imports).

Alphabet: 0-9, A-Z, a-z in that order, minus the look-alike characters the
format excludes; suffixes are all 2-character strings in odometer order followed
by all 3-character strings in odometer order.
"""

from __future__ import annotations

import itertools as it
import string

EXCLUDED = set("IOQSgijlpqy")
ALPHABET = [
    c
    for c in string.digits + string.ascii_uppercase + string.ascii_lowercase
    if c not in EXCLUDED
]
assert len(ALPHABET) == 51
TOTAL = len(ALPHABET) ** 2 + len(ALPHABET) ** 3  # 135252


def all_suffixes():
    for n in (2, 3):
        for t in it.product(ALPHABET, repeat=n):
            yield "".join(t)


def successor(s: str):
    """Next suffix after s, or None when s is the very last one."""
    idx = [ALPHABET.index(c) for c in s]
    i = len(idx) - 1
    while i >= 0:
        if idx[i] + 1 < len(ALPHABET):
            idx[i] += 1
            for j in range(i + 1, len(idx)):
                idx[j] = 0
            return "".join(ALPHABET[k] for k in idx)
        i -= 1
    if len(s) == 2:
        return ALPHABET[0] * 3
    return None


def well_formed(zid: str) -> bool:
    if len(zid) not in (9, 10) or zid[6] != "#":
        return False
    if not zid[:6].isdigit():
        return False
    return all(c in ALPHABET for c in zid[7:])
