"""Designed note corpora (plain .zo text; every note carries an explicit ZID, so
`db create` does not rewrite the files).  The oracle never reads these texts: the
universe it evaluates filters over is what M3 reads back from the built index.

Frozen day for the corpora: 2024-05-15."""

from __future__ import annotations

H1R, H2R, H3R, H4R = "#" * 32, "=" * 24, "+" * 16, "-" * 8

K1 = {
    "ab.zo": """# AB page #t1 +j1

- 240101#A1 plain note Foo_bar baz
o P0 240101#A2 open zero @c1 due::2024-05-31 n::5
o P1 240115 240101#A3 open one modified %p1 n::10
x P2 240115#A4 done two [[b]] s::abc
~ P3 240131#A5 cancelled three [[b#x]] s::abd
< P4 240201#A6 blocked four [[cee]] #t2
> P5 240201#A7 parent five [[bb]] @c1 @c2
- 231231#A8 fooxbar lower case only
- 240515#A9 created today 100% sure
- 240514#AA created yesterday foo%bar
""",
    "a_b.zo": """# A_B page

- 240415#B1 month ago a\\b backslash
o P6 240401 230515#B2 year ago n::42 due::2024-06-01
o P9 240301#B3 nine MIXED Case Body
""",
    "axb.zo": """# AXB page @c2

- 240302#C1 in axb [[b_x]]
x 240303#C2 done default priority [#gid]
""",
    "b.zo": """# B page

- 240304#D1 owner of gid ID::gid
- 240305#D2 owner of rid RID::rid1
- 240306#D3 zid target
""",
    "cee.zo": """# CEE page +j2

- 240307#E1 links by ref [@rid1] s::Abc
- 240308#E2 links by zid [240306#D3] s::b
- 240309#E3 two line body
  second line with Foo_bar
o P7 240310#E4 todo in c due::2024-06-30 n::007
""",
    "dir/ab.zo": f"""# DIR AB

{H1R} Section One #t1

- 240311#F1 in dir [[dir/ab]] [[ab]]

{H2R} Sub Two %p1 %p2

o P8 240312#F2 deep todo +j1

{H3R} Deeper Three @c1

- 240315#F3 note under an h3 [[b]] n::10

{H4R} Deepest Four

x P2 240316#F4 done under an h4 s::abc due::2024-06-01
""",
    "ps.zo": """# PS

- 240313#G1 in ps
""",
    "tops.zo": """# TOPS

~ 240314#H1 cancelled in tops
""",
    # page names that begin with the letters of the f= prefix
    "ffa.zo": """# FFA

- 240317#J1 in ffa
""",
    "fa.zo": """# FA

o 240318#J2 in fa
""",
}

K_SINGLE = {
    "only.zo": """# ONLY #t1

o P1 240101#S1 single note Foo_bar [[b]] n::10 due::2024-06-01 s::abc
""",
}

K_EMPTY = {
    "empty.zo": "# no notes here\n",
}

# six-note pool for the sub-index quantifier (every subset is an index)
POOL6 = [
    ("p1.zo", "- 240101#P1 note one #t1 [[b]] n::5\n"),
    ("p1.zo", "o P1 240115 240101#P2 todo two @c1 due::2024-05-31\n"),
    ("b.zo", "- 240304#P3 owner ID::gid RID::rid1\n"),
    ("b.zo", "x P2 240305#P4 done Foo_bar s::abc\n"),
    ("a_b.zo", "~ 240515#P5 cancelled today [#gid] foo%bar\n"),
    ("axb.zo", "< P4 240201#P6 blocked [@rid1] n::42 s::abd\n"),
]


def pool_subset(mask: int) -> dict[str, str]:
    files: dict[str, list[str]] = {}
    for i, (page, line) in enumerate(POOL6):
        if mask & (1 << i):
            files.setdefault(page, []).append(line)
    return {p: f"# {p[:-3].upper()} page\n\n" + "".join(ls) for p, ls in files.items()} or {
        "void.zo": "# void\n"
    }


K4 = {
    "big.zo": f"""# BIG page

- 240101#K1 n01 alpha
o P2 240101#K2 n02 bravo #t1
- 240101#K3 n03 charlie #t1 #t2
x P1 240102#K4 n04 delta @c1
o P1 240102#K5 n05 echo @c1 @c2
- 240103#K6 n06 foxtrot %p1
~ 240103#K7 n07 golf +j1 +j2
< P0 240103#K8 n08 hotel k::v1
> P9 240104#K9 n09 india k::v2 [[b]]
- 240104#KA n10 juliet [[b]] [[cee]]
o 240104#KB n11 kilo k::v1
- 240105#KC n12 lima
  second line of lima
o P2 240110 240105#KD n13 mike k::v2 n::7

{H1R} Alpha

- 240106#KE under alpha k::v1 n::7

{H2R} Common

- 240106#KF alpha common

{H1R} Beta

{H2R} Common

o P3 240107#KG beta common

{H3R} Deep

{H4R} Deeper

x P3 240108#KH deepest done

{H1R} Sprint

- 240111#KL sprint note with context @c1
o P1 240111#KM sprint todo without context
- 240111#KN sprint note plain
x 240112#KR sprint done @c2

{H1R} Sprint 2

- 240113#KP sprint two note
o P0 240113#KQ sprint two todo @c1
""",
    "big/x.zo": """# X in big dir #t1

- 240109#KJ note in big slash x
""",
    "memo.zo": """# MEMO

- 240114#KS note in memo
o P2 240114#KT todo in memo @c1
""",
    "mem.zo": """# MEM

- 240115#KU note in mem
""",
    "loose.zo": f"""# LOOSE

- 240117#KW loose top note

{H2R} Part

- 240117#KX note in part
o P1 240117#KY todo in part @c1

{H3R} Sub

- 240118#KZ note in sub

{H2R} Beta

x 240118#L0 done in the second headless h2
""",
    # a page that is indexed early and introduces #zeta, [[zz]] and @zc ...
    "aaa_first.zo": """# AAA FIRST

- 240321#S8 introduces late letters #zeta [[zz]] @zc
""",
    # ... and a page with a single note that carries them next to NEW names that sort before
    # them (their rows are created later)
    "solo.zo": """# SOLO

- 240320#S9 lonely note #zeta #alpha #mid [[zz]] [[aa]] @zc @ac
""",
    # one day with many allocations: counters that differ only in letter case
    "cased.zo": """# CASED

- 240322#0a lower a
- 240322#0A upper a
- 240322#0b lower b
- 240322#0B upper b
- 240322#0Z upper z
""",
    "jazz.zo": """# JAZZ

x 240116#KV done in jazz
""",
}


def long_page_corpus() -> dict:
    """ONE page with 1100 notes (a journal kept for years) and a small page whose notes link to
    it: a filter that has to enumerate the notes of the linked page meets more than 1000 of them."""
    from mc.models import zid_model as ZM

    lines = ["# Long journal", ""]
    for k, sfx in enumerate(ZM.all_suffixes()):
        if k == 1100:
            break
        lines.append(f"- 240601#{sfx} entry number{k}" + (" ID::gid7" if k == 7 else ""))
    other = ["# Other", "", "- 240602#A1 links to the page [[long]]", "- 240602#A2 links to an anchor [[long#a]]",
             "- 240602#A3 links to a note of it [240601#0B]", "- 240602#A4 links to its ID [#gid7]",
             "- 240602#A5 links elsewhere [[other]]", "o 240602#A6 no link"]
    return {"long.zo": "\n".join(lines) + "\n", "other.zo": "\n".join(other) + "\n"}


def big_corpus() -> dict:
    """600 notes on three pages; 520 of them contain the word 'Widget' (more than any
    list-size limit a query layer may have in mind), 80 contain 'gadget' only."""
    from mc.models import zid_model as ZM

    sufs = []
    for sfx in ZM.all_suffixes():
        sufs.append(sfx)
        if len(sufs) == 600:
            break
    pages = {"wa.zo": ["# WA #t1", ""], "wb.zo": ["# WB", ""], "sub/wc.zo": ["# WC +j1", ""]}
    names = list(pages)
    for k, sfx in enumerate(sufs):
        word = "Widget" if k < 520 else "gadget"
        kind = "-o"[k % 2]
        pages[names[k % 3]].append(f"{kind} 240601#{sfx} {word} number{k} [[wb]]" if k % 50 == 0 else f"{kind} 240601#{sfx} {word} number{k}")
    return {n: "\n".join(ls) + "\n" for n, ls in pages.items()}
