"""M4 (query output) — parse the text `zorg query` renders back into groups,
and say what each note's group labels, rendering and order keys must be.
No zorg imports."""

from __future__ import annotations

from typing import Optional

RULERS = {1: "#" * 32, 2: "=" * 24, 3: "+" * 16, 4: "-" * 8}
TYPE_LABEL = {"-": "4 | NOTES", "o": "1 | OPEN TODOS", "<": "1 | OPEN TODOS", ">": "1 | OPEN TODOS",
              "x": "2 | DONE TODOS", "~": "3 | CANCELED TODOS"}
TAG_DIM = {"#": "areas", "@": "contexts", "%": "people", "+": "projects"}


def header_level(line: str) -> Optional[tuple[int, str]]:
    for lv, r in RULERS.items():
        if line.startswith(r + " "):
            return lv, line[len(r) + 1:]
    return None


def parse_output(text: str, n_levels: int, notes_mode: bool) -> tuple[list, list[str]]:
    """-> ([(chain, [entries...]), ...] in output order, problems)."""
    groups: list[tuple[tuple, list[str]]] = []
    problems: list[str] = []
    chain = [""] * n_levels
    cur: Optional[list[str]] = None

    def start():
        nonlocal cur
        cur = []
        groups.append((tuple(chain), cur))

    if n_levels == 0:
        start()
    for line in text.split("\n"):
        h = header_level(line) if n_levels else None
        if h is not None:
            lv, label = h
            if lv > n_levels:
                problems.append(f"header of level {lv} with only {n_levels} grouping dimensions: {line!r}")
                continue
            if label == "":
                problems.append(f"header with empty label at level {lv}")
            chain[lv - 1] = label
            for k in range(lv, n_levels):
                chain[k] = ""
            start()
            continue
        if line == "":
            continue
        if cur is None:
            start()
        if notes_mode and line.startswith(" ") and cur:
            cur[-1] += "\n" + line
        else:
            cur.append(line)
    # a header directly followed by a deeper header is a container, not a leaf
    # group; leaf groups without entries carry no information either
    return [(c, e) for c, e in groups if e], problems


def expected_label(note: dict, dim: str) -> str:
    if dim == "file":
        p = note["page"]
        return "[[" + (p[:-3] if p.endswith(".zo") else p) + "]]"
    if dim == "section":
        return " | ".join(t for i, t in enumerate(note["section"]) if not (i == 0 and t == ""))
    if dim == "type":
        return TYPE_LABEL[note["kind"]]
    if dim == "priority":
        return note["priority"] or ""
    return " | ".join(dim + t for t in sorted(note[TAG_DIM[dim]]))


def expected_text(note: dict) -> str:
    pr = f" {note['priority']}" if note["kind"] in ("o", "<", ">") else ""
    return f"{note['kind']}{pr} {note['body'].strip()}"


def order_cmp(a: dict, b: dict, keys: list[str]) -> Optional[str]:
    """None if `a` may precede `b` under the ORDER BY keys; otherwise the key
    that is violated.  A key on which the statement defines no order between the
    two notes ends the comparison (the pair is accepted)."""
    for k in keys:
        if k == "alpha":
            x, y = expected_text(a) + "\n", expected_text(b) + "\n"
        elif k == "create":
            x, y = a["create"], b["create"]
        elif k == "modify":
            x, y = a["modify"], b["modify"]
        elif k == "type":
            x, y = TYPE_LABEL[a["kind"]], TYPE_LABEL[b["kind"]]
        elif k == "priority":
            if a["priority"] is None or b["priority"] is None:
                if (a["priority"] is None) != (b["priority"] is None):
                    return None  # order between a todo and a plain note is not defined
                continue
            x, y = a["priority"], b["priority"]
        elif k == "none":
            x, y = (a["page"], a["line"]), (b["page"], b["line"])
        else:
            raise ValueError(k)
        if x < y:
            return None
        if x > y:
            return k
    return None
