"""M4 (file edits) — predictions for what zorg may write into .zo files.
No zorg imports."""

from __future__ import annotations

import re
from typing import Optional

# a priority is the word RIGHT after the kind (exactly one blank in between): the grammar
# reads 'o  P1 x' as an open todo whose body starts with the word P1
_ITEM = re.compile(r"^([-ox~<>])()(?: (P[0-9])(?= |$))?( *)(.*)$", re.S)
_LONG = re.compile(r"^\d{4}-\d{2}-\d{2}$")
_SHORT = re.compile(r"^\d{6}$")
ZID_RE = re.compile(r"^\d{6}#[0-9A-HJ-NPRT-Za-fhkmnor-xz]{2,3}$")


def split_item_line(line: str) -> Optional[dict]:
    """kind, explicit priority and the rest of an item's first line."""
    m = _ITEM.match(line)
    if not m:
        return None
    kind, _, prio, _, rest = m.groups()
    if kind == "-" and prio:
        rest = prio + m.group(4) + rest
        prio = None
    return {"kind": kind, "prio": prio, "rest": rest.lstrip(" ")}


def predict_zid_line(line: str, zid: str) -> Optional[str]:
    """First line of a formerly ZID-less item after the ZID write-back: the ZID
    goes right after the kind/priority prefix, single-spaced, taking the place of
    a leading YYYY-MM-DD creation date."""
    p = split_item_line(line)
    if p is None:
        return None
    words = p["rest"].split(" ")
    ending = ""
    if words and _is_calendar_long_date(words[0]):
        # (on a page with \r\n line endings the \r after the date is part of the line break)
        if words[0].endswith("\r"):
            ending = "\r"
        words = words[1:]
        while words and words[0] == "":
            words.pop(0)
    pre = p["kind"] + (f" {p['prio']}" if p["prio"] else "")
    return f"{pre} {zid} {' '.join(words)}{ending}"


def _is_calendar_long_date(word: str) -> bool:
    """YYYY-MM-DD that names a day of the calendar (2024-19-39 is just a word)."""
    # the grammar's DATE token only covers the years 2000-2999
    if not _LONG.match(word.rstrip("\r")) or word[0] != "2":
        return False
    import datetime

    try:
        datetime.date.fromisoformat(word.rstrip("\r"))
    except ValueError:
        return False
    return True


def predict_stamp_line(line: str, today_short: str) -> Optional[str]:
    """First line of a stamped note: today's YYMMDD in front of the ZID,
    replacing an older stamp."""
    p = split_item_line(line)
    if p is None:
        return None
    words = p["rest"].split(" ")
    if words and _SHORT.match(words[0]):
        words = words[1:]
        while words and words[0] == "":
            words.pop(0)
    pre = p["kind"] + (f" {p['prio']}" if p["prio"] else "")
    return f"{pre} {today_short} {' '.join(words)}"


def first_zid(rest_words: list[str]) -> Optional[str]:
    ws = [w for w in rest_words if w != ""]
    if ws and _SHORT.match(ws[0]):
        ws = ws[1:]
    if ws and ZID_RE.match(ws[0]):
        return ws[0]
    return None


def item_start_lines(text: str) -> list[int]:
    """0-based indexes of lines that start an item (kind char + space at col 0)."""
    out = []
    for i, l in enumerate(text.split("\n")):
        if len(l) >= 2 and l[0] in "-ox~<>" and l[1] == " ":
            out.append(i)
    return out
