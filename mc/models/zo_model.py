"""M1 — abstract .zo pages, their rendering, and the notes they denote.

No zorg imports.  A page is built from structured *words* whose meaning is known
by construction; `render` turns it into text (recording the line of every
item) and `expected_notes` runs a scope-stack state machine over the page's
line events to say which notes the text denotes.  Expected values are computed
from the abstract page, never from the rendered text.

Words (tuples):
  ("w", text)                plain word (may look like a prefix token)
  ("tag", sym, name)         #name @name %name +name
  ("link", name)             [[name]]        -> link  name
  ("glink", id)              [#id]           -> link  global:id
  ("llink", id)              [^id]           -> link  local:id
  ("zlink", zid)             [zid]           -> link  zid:zid
  ("rlink", id)              [@id]           -> link  ref:id
  ("emb", name)              ((name))        -> embedded reference: no link, no date
  ("url", text)              https://...     -> link  x:text
  ("prop", key, value)       key::value
  ("iprop", key, [values])   [key:: v1 v2]
  ("date", "YYYY-MM-DD")     long date (dates a scope when the scope takes one)
"""

from __future__ import annotations

import datetime as dt
from dataclasses import dataclass, field
from typing import Optional, Sequence, Union

H_RULERS = {1: "#" * 32, 2: "=" * 24, 3: "+" * 16, 4: "-" * 8}
TAG_KIND = {"#": "areas", "@": "contexts", "%": "people", "+": "projects"}
DEFAULT_PRIORITY = "P3"
TODO_KINDS = ("o", "x", "~", "<", ">")
ALL_KINDS = ("-",) + TODO_KINDS

Word = tuple


def W(text: str) -> Word:
    return ("w", text)


def render_word(w: Word) -> str:
    k = w[0]
    if k == "w":
        return w[1]
    if k == "tag":
        return w[1] + w[2]
    if k == "link":
        return f"[[{w[1]}]]"
    if k == "glink":
        return f"[#{w[1]}]"
    if k == "llink":
        return f"[^{w[1]}]"
    if k == "zlink":
        return f"[{w[1]}]"
    if k == "rlink":
        return f"[@{w[1]}]"
    if k == "url":
        return w[1]
    if k == "emb":
        return f"(({w[1]}))"
    if k == "prop":
        return f"{w[1]}::{w[2]}"
    if k == "iprop":
        vals = " ".join(w[2])
        return f"[{w[1]}:: {vals}]"
    if k == "ipropns":  # no space after '::'
        vals = " ".join(w[2])
        return f"[{w[1]}::{vals}]"
    if k == "bprop":  # only as the content of a bullet line
        vals = " ".join(w[2])
        return f"{w[1]}:: {vals}".rstrip() if not vals else f"{w[1]}:: {vals}"
    if k == "date":
        return w[1]
    raise ValueError(w)


def render_words(ws: Sequence[Word]) -> str:
    return " ".join(render_word(w) for w in ws)


@dataclass
class Meta:
    tags: dict = field(default_factory=lambda: {k: set() for k in TAG_KIND.values()})
    links: set = field(default_factory=set)
    props: dict = field(default_factory=dict)
    date: Optional[str] = None  # last long date word in the scope


def meta_of(ws: Sequence[Word], *, digit_tags_dropped: bool = True) -> Meta:
    m = Meta()
    for w in ws:
        k = w[0]
        if k == "tag":
            if digit_tags_dropped and w[2].isdigit():
                continue
            m.tags[TAG_KIND[w[1]]].add(w[2])
        elif k == "link":
            m.links.add(w[1])
        elif k == "glink":
            m.links.add("global:" + w[1])
        elif k == "llink":
            m.links.add("local:" + w[1])
        elif k == "zlink":
            m.links.add("zid:" + w[1])
        elif k == "rlink":
            m.links.add("ref:" + w[1])
        elif k == "url":
            m.links.add("x:" + w[1])
        elif k == "prop":
            m.props[w[1]] = w[2]
        elif k in ("iprop", "bprop", "ipropns"):
            m.props[w[1]] = " ".join(w[2])
        elif k == "date":
            m.date = w[1]
    return m


@dataclass
class AItem:
    kind: str = "-"
    priority: Optional[str] = None  # explicit Pn (todos only)
    mdate: Optional[str] = None  # YYMMDD
    ident: tuple = ("none",)  # ("none",) | ("zid", z) | ("long", "YYYY-MM-DD")
    words: list = field(default_factory=list)
    cont: list = field(default_factory=list)  # [(prefix, [words])], prefix e.g. "  " or "  * "
    sep: str = " "  # spacing between the kind/priority prefix and the rest

    def first_line_rest(self) -> str:
        parts = []
        if self.mdate:
            parts.append(self.mdate)
        if self.ident[0] in ("zid", "long"):
            parts.append(self.ident[1])
        parts.extend(render_word(w) for w in self.words)
        return " ".join(parts)

    def lines(self) -> list[str]:
        pre = self.kind + (f" {self.priority}" if self.priority else "")
        out = [f"{pre}{self.sep}{self.first_line_rest()}"]
        for prefix, ws in self.cont:
            out.append(prefix + render_words(ws))
        return out

    def body(self) -> str:
        ls = [self.first_line_rest()] + [p + render_words(ws) for p, ws in self.cont]
        return "\n".join(ls).strip()

    def all_words(self) -> list:
        ws = list(self.words)
        for _, c in self.cont:
            ws.extend(c)
        return ws


@dataclass
class AComment:
    words: list = field(default_factory=list)

    def lines(self) -> list[str]:
        return ["# " + render_words(self.words) if self.words else "#"]


@dataclass
class ASection:
    level: int
    words: list  # header words (title text + decorations)
    blocks: list = field(default_factory=list)  # list of list of AItem/AComment
    gap_after_header: int = 1


@dataclass
class APage:
    title: list = field(default_factory=lambda: [W("title")])
    header_lines: list = field(default_factory=list)  # list of word lists
    top_blocks: list = field(default_factory=list)
    sections: list = field(default_factory=list)
    gap_after_head: int = 1


def render(page: APage) -> tuple[str, list[int]]:
    """Text of the page and the 1-based first line of every item, in order."""
    lines: list[str] = []
    item_lines: list[int] = []
    lines.append("# " + render_words(page.title) if page.title else "#")
    for hl in page.header_lines:
        lines.append("# " + render_words(hl) if hl else "#")
    has_body = bool(page.top_blocks or page.sections)
    if has_body:
        lines.extend([""] * page.gap_after_head)

    def put_blocks(blocks: list) -> None:
        for bi, block in enumerate(blocks):
            if bi > 0 and lines and lines[-1] != "":
                lines.append("")
            for it in block:
                if isinstance(it, AItem):
                    item_lines.append(len(lines) + 1)
                lines.extend(it.lines())
            lines.append("")

    put_blocks(page.top_blocks)
    for sec in page.sections:
        if lines and lines[-1] != "":
            lines.append("")
        lines.append(f"{H_RULERS[sec.level]} {render_words(sec.words)}")
        lines.extend([""] * sec.gap_after_header)
        put_blocks(sec.blocks)
    while lines and lines[-1] == "":
        lines.pop()
    return "\n".join(lines) + "\n", item_lines


def zid_date(zid: str) -> str:
    return "20%s-%s-%s" % (zid[0:2], zid[2:4], zid[4:6])


def short_to_iso(s: str) -> str:
    return "20%s-%s-%s" % (s[0:2], s[2:4], s[4:6])


def legal_sequence(levels: Sequence[int]) -> bool:
    """First header H1 or H2; each next level <= previous + 1 (an H2 before any
    H1 hangs off the untitled top section)."""
    prev = None
    for lv in levels:
        if prev is None:
            if lv not in (1, 2):
                return False
        elif lv > prev + 1:
            return False
        prev = lv
    return True


def expected_notes(page: APage, today: dt.date, trace: Optional[list] = None) -> list[dict]:
    """Scope-stack state machine over the page's line events.

    State = (stack of open sections, each with its Meta).  Events: title line,
    later header line, section header of level L (pop every open section of
    level >= L, push), comment (no effect), item (emit a note), blank (no
    effect).  `trace`, if given, receives one (state, event) entry per event.
    """
    text_unused, item_lines = render(page)
    title_meta = meta_of(page.title)
    file_props = dict(title_meta.props)
    for hl in page.header_lines:
        # later header lines contribute properties only (never tags/links/date)
        file_props.update(meta_of(hl).props)
    file_date = title_meta.date

    stack: list[tuple[int, str, Meta]] = []  # (level, title text, meta)
    has_h0_flag = [False]
    notes: list[dict] = []
    idx = [0]

    def state_key() -> tuple:
        return tuple(
            (lv, bool(any(m.tags.values()) or m.links), bool(m.props), bool(m.date))
            for lv, _, m in stack
        )

    def emit(it: AItem, block_index: int) -> None:
        own = meta_of(it.all_words())
        tags = {k: set(title_meta.tags[k]) for k in TAG_KIND.values()}
        links = set(title_meta.links)
        props = dict(file_props)
        date = file_date
        for _, _, m in stack:
            for k in tags:
                tags[k] |= m.tags[k]
            links |= m.links
            props.update(m.props)
            if m.date:
                date = m.date
        for k in tags:
            tags[k] |= own.tags[k]
        links |= own.links
        props.update(own.props)
        zid = it.ident[1] if it.ident[0] == "zid" else None
        if zid:
            create = zid_date(zid)
        elif it.ident[0] == "long":
            create = it.ident[1]
        elif date:
            create = date
        else:
            create = today.isoformat()
        modify = short_to_iso(it.mdate) if it.mdate else create
        # section path as titles, the untitled top section is ""
        if not stack:
            path = [""]
        else:
            path = [t for _, t, _ in stack]
            if stack[0][0] == 2:
                path = [""] + path
        notes.append(
            {
                "kind": it.kind,
                "priority": (it.priority or DEFAULT_PRIORITY) if it.kind != "-" else None,
                "body": it.body(),
                "line": item_lines[idx[0]],
                "zid": zid,
                "create": create,
                "modify": modify,
                "areas": sorted(tags["areas"]),
                "contexts": sorted(tags["contexts"]),
                "people": sorted(tags["people"]),
                "projects": sorted(tags["projects"]),
                "links": sorted(links),
                "props": dict(sorted(props.items())),
                "section": path,
                "block": block_index,
            }
        )
        idx[0] += 1

    def do_blocks(blocks: list) -> None:
        for bi, block in enumerate(blocks):
            for it in block:
                if isinstance(it, AItem):
                    if trace is not None:
                        trace.append((state_key(), "item"))
                    emit(it, bi)
                elif trace is not None:
                    trace.append((state_key(), "comment"))

    if trace is not None:
        trace.append(((), "title"))
        for _ in page.header_lines:
            trace.append(((), "header-line"))
    do_blocks(page.top_blocks)
    for sec in page.sections:
        while stack and stack[-1][0] >= sec.level:
            stack.pop()
        title = render_words(sec.words).strip()
        stack.append((sec.level, title, meta_of(sec.words)))
        if trace is not None:
            trace.append((state_key(), f"H{sec.level}"))
        do_blocks(sec.blocks)
    return notes


NOTE_FIELDS = (
    "kind", "priority", "body", "line", "zid", "create", "modify",
    "areas", "contexts", "people", "projects", "links", "props", "section", "block",
)


def diff_notes(expected: list[dict], observed: list[dict], fields=NOTE_FIELDS) -> Optional[dict]:
    """First difference between two note lists (None if equal on `fields`)."""
    if len(expected) != len(observed):
        return {"what": "note-count", "expected": len(expected), "observed": len(observed)}
    for i, (e, o) in enumerate(zip(expected, observed)):
        for f in fields:
            if e.get(f) != o.get(f):
                return {"what": f, "note": i, "expected": e.get(f), "observed": o.get(f)}
    return None
