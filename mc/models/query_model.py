"""M2 — abstract SWOG queries: rendering, the structure they denote, and a
set-algebra evaluator of the WHERE tree over plain note rows.  No zorg imports.

Atoms (tuples):
  ("kind", "ox~")                       kind characters
  ("prio", n, m_or_None)                Pn / Pn-m
  ("tag", sym, name, neg)
  ("create"|"modify", start, end|None)  date specs: ("short","YYMMDD") | ("rel", N, unit, past)
  ("prop", key, op, value|None, neg)    op in exists = < <= > >=
  ("desc", text, quote, cflag, neg)     quote in ' "
  ("file", glob, neg)
  ("link", name, neg)
  ("sub", OR)                           OR = [AND, ...], AND = [atom, ...]
"""

from __future__ import annotations

import datetime as dt
import re
from typing import Any, Optional

KIND_NAME = {"-": "BASIC", "o": "OPEN_TODO", "x": "CLOSED_TODO", "~": "CANCELED_TODO",
             "<": "BLOCKED_TODO", ">": "PARENT_TODO"}
TAG_FIELD = {"#": "areas", "@": "contexts", "%": "people", "+": "projects"}
OP_NAME = {"exists": "EXISTS", "=": "EQ", "<": "LT", "<=": "LE", ">": "GT", ">=": "GE"}
SELECT_FIELDS = {
    "file": ("static", "FILE"), "note": ("static", "NOTE"), "prop": ("static", "PROPERTY"),
    "links": ("static", "LINKS"), "@": ("static", "CONTEXT"), "#": ("static", "AREA"),
    "+": ("static", "PROJECT"), "%": ("static", "PERSON"),
}
ORDER_NAME = {"alpha": "ALPHA", "create": "CREATE_DATE", "modify": "MODIFY_DATE",
              "priority": "PRIORITY", "type": "NOTE_TYPE", "none": "NONE"}
GROUP_NAME = {"file": "FILE", "section": "SECTION", "type": "NOTE_TYPE", "priority": "PRIORITY",
              "@": "CONTEXT", "#": "AREA", "%": "PERSON", "+": "PROJECT", "none": None}
DEFAULT_ORDER = ["NOTE_TYPE", "PRIORITY", "MODIFY_DATE", "CREATE_DATE"]


# ---- calendar arithmetic written out by hand (no dateutil) -----------------
def _leap(y: int) -> bool:
    return y % 4 == 0 and (y % 100 != 0 or y % 400 == 0)


def _dim(y: int, m: int) -> int:
    return [31, 29 if _leap(y) else 28, 31, 30, 31, 30, 31, 31, 30, 31, 30, 31][m - 1]


def add_months(d: dt.date, n: int) -> dt.date:
    idx = d.year * 12 + (d.month - 1) + n
    y, m = divmod(idx, 12)
    m += 1
    return dt.date(y, m, min(d.day, _dim(y, m)))


def resolve_date(spec, today: dt.date) -> dt.date:
    if spec[0] == "short":
        s = spec[1]
        return dt.date(2000 + int(s[0:2]), int(s[2:4]), int(s[4:6]))
    if spec[0] == "long":
        y, m, d = spec[1].split("-")
        return dt.date(int(y), int(m), int(d))
    _, n, unit, past = spec
    sign = -1 if past else 1
    if unit == "d":
        return dt.date.fromordinal(today.toordinal() + sign * n)
    if unit == "m":
        return add_months(today, sign * n)
    return add_months(today, sign * 12 * n)


def render_date(spec) -> str:
    if spec[0] in ("short", "long"):
        return spec[1]
    _, n, unit, past = spec
    return f"{'-' if past else ''}{n}{unit}"


# ---- rendering ---------------------------------------------------------------
def render_atom(a) -> str:
    k = a[0]
    if k == "kind":
        return a[1]
    if k == "prio":
        return f"P{a[1]}" + (f"-{a[2]}" if a[2] is not None else "")
    if k == "tag":
        return ("!" if a[3] else "") + a[1] + a[2]
    if k in ("create", "modify"):
        head = "^" if k == "create" else "$"
        return head + render_date(a[1]) + (":" + render_date(a[2]) if a[2] is not None else "")
    if k == "prop":
        _, key, op, val, neg = a
        if op == "exists":
            body = "*"
        else:
            body = ("" if op == "=" else op) + val
        return ("!" if neg else "") + f"{key}:{body}"
    if k == "desc":
        _, text, quote, cflag, neg = a
        return ("!" if neg else "") + ("c" if cflag else "") + quote + text + quote
    if k == "file":
        return ("!" if a[2] else "") + "f=" + a[1]
    if k == "link":
        return ("!" if a[2] else "") + "[[" + a[1] + "]]"
    if k == "sub":
        return "(" + render_or(a[1]) + ")"
    raise ValueError(a)


def render_and(and_) -> str:
    return " ".join(render_atom(a) for a in and_)


def render_or(or_) -> str:
    return " | ".join(render_and(a) for a in or_)


def render_query(select=None, where=None, order=None, group=None, group_first=False, nl=False) -> str:
    parts = []
    if select is not None:
        parts.append("S " + render_select(select))
    if where is not None:
        parts.append("W " + render_or(where))
    o = ("O " + " ".join(order)) if order is not None else None
    g = ("G " + " ".join(group)) if group is not None else None
    tail = [g, o] if group_first else [o, g]
    parts.extend(t for t in tail if t)
    return " ".join(parts) + ("\n" if nl else "")


def render_select(sel) -> str:
    if sel[0] == "count":
        return f"count({render_select(sel[1])})"
    if sel[0] == "propvals":
        return "prop:" + sel[1]
    return sel[0]


# ---- the structure a query denotes ------------------------------------------
def value_type(val: str) -> str:
    if re.fullmatch(r"\d{4}-\d{2}-\d{2}", val) or re.fullmatch(r"\d{6}", val) and _valid_short(val) \
            or re.fullmatch(r"-?\d+[dmyDMY]", val):
        return "DATE"
    if val.isdigit():
        return "INTEGER"
    return "STRING"


def _valid_short(s: str) -> bool:
    try:
        dt.date(2000 + int(s[0:2]), int(s[2:4]), int(s[4:6]))
        return True
    except ValueError:
        return False


def expected_select(sel):
    if sel is None:
        return ("static", "NOTE")
    if sel[0] == "count":
        return ("agg", "count", expected_select(sel[1]))
    if sel[0] == "propvals":
        return ("propvals", sel[1])
    return SELECT_FIELDS[sel[0]]


def expected_and(and_, today: dt.date) -> dict:
    d: dict[str, Any] = {
        "types": set(), "prios": set(), "areas": set(), "contexts": set(), "people": set(),
        "projects": set(), "create": set(), "modify": set(), "props": set(), "descs": set(),
        "files": set(), "links": set(), "subs": [],
    }
    for a in and_:
        k = a[0]
        if k == "kind":
            d["types"] |= {KIND_NAME[c] for c in a[1]}
        elif k == "prio":
            hi = a[2] if a[2] is not None else a[1]
            d["prios"] |= {f"P{n}" for n in range(a[1], hi + 1)}
        elif k == "tag":
            d[TAG_FIELD[a[1]]].add((a[2], bool(a[3])))
        elif k in ("create", "modify"):
            s = resolve_date(a[1], today).isoformat()
            e = resolve_date(a[2], today).isoformat() if a[2] is not None else None
            d[k].add((s, e))
        elif k == "prop":
            _, key, op, val, neg = a
            if op == "exists":
                d["props"].add((key, "", "EXISTS", None, bool(neg)))
            else:
                d["props"].add((key, val, OP_NAME[op], value_type(val), bool(neg)))
        elif k == "desc":
            _, text, quote, cflag, neg = a
            d["descs"].add((text, True if cflag else None, "NOT_CONTAINS" if neg else "CONTAINS"))
        elif k == "file":
            g = a[1]
            d["files"].add((g if g.endswith("*") else g + ".zo", bool(a[2])))
        elif k == "link":
            d["links"].add((a[1], bool(a[2])))
        elif k == "sub":
            d["subs"].append(expected_or(a[1], today))
    return _freeze_and(d)


def _freeze_and(d: dict) -> dict:
    out = {}
    for k, v in d.items():
        if isinstance(v, set):
            out[k] = sorted(v, key=repr)
        else:
            out[k] = v
    return out


def expected_or(or_, today: dt.date) -> list:
    return [expected_and(a, today) for a in or_]


def expected_query(select, where, order, group, today: dt.date) -> dict:
    return {
        "select": expected_select(select),
        "where": expected_or(where, today) if where is not None else None,
        "order": [ORDER_NAME[o] for o in order] if order is not None else list(DEFAULT_ORDER),
        "group": [GROUP_NAME[g] for g in group if GROUP_NAME[g] is not None] if group is not None else [],
    }


# ---- evaluation of a WHERE tree over plain note rows --------------------------
def _cmp(op: str, a, b) -> bool:
    return {"=": a == b, "<": a < b, "<=": a <= b, ">": a > b, ">=": a >= b}[op]


def _glob_match(glob: str, path: str) -> bool:
    pat = glob if glob.endswith("*") else glob + ".zo"
    rx = "".join(".*" if c == "*" else re.escape(c) for c in pat)
    return re.fullmatch(rx, path, flags=re.S) is not None


class Universe:
    """The rows of an index (as read by M3) plus what link filters need."""

    def __init__(self, notes: list[dict]):
        self.notes = notes
        self.by_page: dict[str, list[dict]] = {}
        for n in notes:
            self.by_page.setdefault(n["page"], []).append(n)

    def link_targets(self, page_name: str) -> set[str]:
        """Every link text that denotes page `page_name`."""
        out = {page_name}
        for n in self.by_page.get(page_name + ".zo", []):
            if "ID" in n["props"]:
                out.add("global:" + n["props"]["ID"])
            if "RID" in n["props"]:
                out.add("ref:" + n["props"]["RID"])
            if n["zid"]:
                out.add("zid:" + n["zid"])
        return out


def holds_atom(a, n: dict, U: Universe, today: dt.date) -> bool:
    k = a[0]
    if k == "tag":
        present = a[2] in n[TAG_FIELD[a[1]]]
        return (not present) if a[3] else present
    if k in ("create", "modify"):
        s = resolve_date(a[1], today).isoformat()
        e = resolve_date(a[2], today).isoformat() if a[2] is not None else s
        return s <= n[k] <= e
    if k == "prop":
        _, key, op, val, neg = a
        has = key in n["props"]
        if op == "exists":
            return (not has) if neg else has
        if not has:
            return False
        stored = n["props"][key]
        t = value_type(val)
        if t == "DATE":
            want = resolve_date(("long", val), today) if "-" in val[1:] and len(val) == 10 else None
            try:
                y, m, d = stored.split("-")
                have = dt.date(int(y), int(m), int(d))
            except Exception:
                return False
            r = _cmp(op, have, want)
        elif t == "INTEGER":
            r = _cmp(op, int(stored), int(val))
        else:
            r = _cmp(op, stored, val)
        return (not r) if neg else r
    if k == "desc":
        _, text, quote, cflag, neg = a
        sensitive = bool(cflag) or any(c.isupper() for c in text)
        if sensitive:
            r = text in n["body"]
        else:
            r = text.lower() in n["body"].lower()
        return (not r) if neg else r
    if k == "file":
        r = _glob_match(a[1], n["page"])
        return (not r) if a[2] else r
    if k == "link":
        targets = U.link_targets(a[1])
        r = any(l in targets or l.startswith(a[1] + "#") for l in n["links"])
        return (not r) if a[2] else r
    if k == "sub":
        return holds_or(a[1], n, U, today)
    raise ValueError(a)


def holds_and(and_, n: dict, U: Universe, today: dt.date) -> bool:
    kinds: set[str] = set()
    prios: set[str] = set()
    for a in and_:
        if a[0] == "kind":
            kinds |= set(a[1])
        elif a[0] == "prio":
            hi = a[2] if a[2] is not None else a[1]
            prios |= {f"P{i}" for i in range(a[1], hi + 1)}
    if kinds and n["kind"] not in kinds:
        return False
    if prios and n["priority"] not in prios:
        return False
    return all(holds_atom(a, n, U, today) for a in and_ if a[0] not in ("kind", "prio"))


def holds_or(or_, n: dict, U: Universe, today: dt.date) -> bool:
    return any(holds_and(a, n, U, today) for a in or_)


# ---- expression shapes ---------------------------------------------------------
def _compositions(n: int):
    """Ordered ways to write n as a sum of positive integers."""
    if n == 0:
        yield []
        return
    for first in range(1, n + 1):
        for rest in _compositions(n - first):
            yield [first] + rest


def and_shapes(m: int, depth: int):
    """AND groups with exactly m leaves: a sequence of items, each a leaf (None)
    or a parenthesised OR-shape (only while depth > 0)."""
    if m == 0:
        yield []
        return
    # first item is a leaf
    for rest in and_shapes(m - 1, depth):
        yield [None] + rest
    if depth > 0:
        for j in range(1, m + 1):
            for sub in or_shapes(j, depth - 1):
                for rest in and_shapes(m - j, depth):
                    yield [("sub", sub)] + rest


def or_shapes(n: int, depth: int):
    """OR-shapes (list of AND groups) with exactly n leaves, parens nested <= depth."""
    for comp in _compositions(n):
        def rec(parts):
            if not parts:
                yield []
                return
            for a in and_shapes(parts[0], depth):
                for rest in rec(parts[1:]):
                    yield [a] + rest
        yield from rec(comp)


def fill(shape, atoms: list):
    """Replace leaf placeholders of an OR-shape, left to right, by `atoms`."""
    it = iter(atoms)

    def f_or(o):
        return [f_and(a) for a in o]

    def f_and(a):
        out = []
        for item in a:
            if item is None:
                out.append(next(it))
            else:
                out.append(("sub", f_or(item[1])))
        return out

    return f_or(shape)
