"""M3 — read .zorg/zorg.db with plain sqlite3 into a canonical value.

No zorg imports, never through SQLModel.  Row ids are dropped, unordered things
are sorted, so two indexes with the same content give equal values.
"""

from __future__ import annotations

import sqlite3
from pathlib import Path
from typing import Any

TAG_TABLES = [
    ("areas", "area", "arealink", "area_id"),
    ("contexts", "context", "contextlink", "context_id"),
    ("people", "person", "personlink", "person_id"),
    ("projects", "project", "projectlink", "project_id"),
    ("links", "link", "linklink", "link_id"),
]


def _rows(cur, sql, args=()):
    cur.execute(sql, args)
    cols = [c[0] for c in cur.description]
    return [dict(zip(cols, r)) for r in cur.fetchall()]


def read_index(zdir: Path) -> dict[str, Any]:
    """Canonical dump: {"pages": {path: {...}}, "problems": [...]}"""
    db = Path(zdir) / ".zorg" / "zorg.db"
    if not db.exists():
        return {"pages": {}, "problems": ["no-database"], "notes": []}
    con = sqlite3.connect(f"file:{db}?mode=ro", uri=True)
    try:
        cur = con.cursor()
        tables = {r[0] for r in cur.execute("SELECT name FROM sqlite_master WHERE type='table'")}
        if "note" not in tables:
            return {"pages": {}, "problems": ["no-tables"], "notes": []}
        pages = _rows(cur, "SELECT * FROM page ORDER BY id")
        h1 = _rows(cur, "SELECT * FROM h1 ORDER BY id")
        h2 = _rows(cur, "SELECT * FROM h2 ORDER BY id")
        h3 = _rows(cur, "SELECT * FROM h3 ORDER BY id")
        h4 = _rows(cur, "SELECT * FROM h4 ORDER BY id")
        blocks = _rows(cur, "SELECT * FROM block ORDER BY id")
        notes = _rows(cur, "SELECT * FROM note ORDER BY id")
        problems: list[str] = []

        page_by_id = {p["id"]: p for p in pages}
        h1_by_id = {r["id"]: r for r in h1}
        h2_by_id = {r["id"]: r for r in h2}
        h3_by_id = {r["id"]: r for r in h3}
        h4_by_id = {r["id"]: r for r in h4}

        # section path + owning page of every section
        def h1_info(r):
            pg = page_by_id.get(r["page_id"])
            if pg is None:
                problems.append(f"h1 '{r['title']}' has no page row")
            return ([r["title"]], pg["path"] if pg else None)

        def h2_info(r):
            par = h1_by_id.get(r["h1_id"])
            if par is None:
                problems.append(f"h2 '{r['title']}' has no h1 row")
                return ([None, r["title"]], None)
            p, pg = h1_info(par)
            return (p + [r["title"]], pg)

        def h3_info(r):
            par = h2_by_id.get(r["h2_id"])
            if par is None:
                problems.append(f"h3 '{r['title']}' has no h2 row")
                return ([None, None, r["title"]], None)
            p, pg = h2_info(par)
            return (p + [r["title"]], pg)

        def h4_info(r):
            par = h3_by_id.get(r["h3_id"])
            if par is None:
                problems.append(f"h4 '{r['title']}' has no h3 row")
                return ([None, None, None, r["title"]], None)
            p, pg = h3_info(par)
            return (p + [r["title"]], pg)

        # block -> (section key, path, page path, index within its section)
        per_section_counter: dict[tuple, int] = {}
        block_info: dict[int, tuple] = {}
        for b in blocks:
            owners = [(k, b[k]) for k in ("h1_id", "h2_id", "h3_id", "h4_id") if b.get(k) is not None]
            if len(owners) != 1:
                problems.append(f"block {b['id']} has {len(owners)} owning sections")
                block_info[b["id"]] = (None, None, None, None)
                continue
            k, sid = owners[0]
            tbl = {"h1_id": (h1_by_id, h1_info), "h2_id": (h2_by_id, h2_info),
                   "h3_id": (h3_by_id, h3_info), "h4_id": (h4_by_id, h4_info)}[k]
            row = tbl[0].get(sid)
            if row is None:
                problems.append(f"block {b['id']} points to missing {k}={sid}")
                block_info[b["id"]] = (None, None, None, None)
                continue
            path, pg = tbl[1](row)
            idx = per_section_counter.get((k, sid), 0)
            per_section_counter[(k, sid)] = idx + 1
            block_info[b["id"]] = ((k, sid), path, pg, idx)

        # tags / links per note
        tag_of: dict[str, dict[int, list[str]]] = {}
        for attr, tbl, ltbl, col in TAG_TABLES:
            names = {r["id"]: r["name"] for r in _rows(cur, f"SELECT * FROM {tbl}")}
            per: dict[int, list[str]] = {}
            used = set()
            for r in _rows(cur, f"SELECT * FROM {ltbl}"):
                if r[col] not in names:
                    problems.append(f"{ltbl} row points to missing {tbl} {r[col]}")
                    continue
                used.add(r[col])
                per.setdefault(r["note_id"], []).append(names[r[col]])
            tag_of[attr] = per
            for tid, nm in names.items():
                if tid not in used:
                    problems.append(f"orphan {tbl} row '{nm}'")
            dup = [n for n in set(names.values()) if list(names.values()).count(n) > 1]
            for n in dup:
                problems.append(f"duplicate {tbl} row '{n}'")
        prop_names = {r["id"]: r["name"] for r in _rows(cur, "SELECT * FROM property")}
        props: dict[int, dict[str, str]] = {}
        used_props = set()
        for r in _rows(cur, "SELECT * FROM propertylink"):
            if r["prop_id"] not in prop_names:
                problems.append(f"propertylink points to missing property {r['prop_id']}")
                continue
            used_props.add(r["prop_id"])
            props.setdefault(r["note_id"], {})[prop_names[r["prop_id"]]] = r["value"]
        for pid, nm in prop_names.items():
            if pid not in used_props:
                problems.append(f"orphan property row '{nm}'")
        note_ids = {n["id"] for n in notes}
        for attr, per in list(tag_of.items()) + [("props", props)]:
            for nid in per:
                if nid not in note_ids:
                    problems.append(f"{attr} link row points to missing note {nid}")

        out_pages: dict[str, Any] = {}
        for p in pages:
            if p["path"] in out_pages:
                problems.append(f"duplicate page row '{p['path']}'")
            out_pages.setdefault(p["path"], {"has_errors": bool(p["has_errors"]), "notes": [], "sections": []})
        # section tree (titles) per page
        for r in h1:
            pg = page_by_id.get(r["page_id"])
            if pg:
                out_pages[pg["path"]]["sections"].append([r["title"]])
        for rows, info in ((h2, h2_info), (h3, h3_info), (h4, h4_info)):
            for r in rows:
                path, pg = info(r)
                if pg in out_pages:
                    out_pages[pg]["sections"].append(path)

        flat = []
        zids_seen: dict[str, int] = {}
        for n in notes:
            sec, path, pg, bidx = block_info.get(n["block_id"], (None, None, None, None))
            if n["block_id"] not in block_info:
                problems.append(f"note {n['zid']} points to missing block {n['block_id']}")
            st = n["todo_status"]
            kind = {None: "-", "OPEN_TODO": "o", "CLOSED_TODO": "x", "CANCELED_TODO": "~",
                    "BLOCKED_TODO": "<", "PARENT_TODO": ">"}.get(st, f"?{st}")
            d = {
                "page": n["page_path"],
                "kind": kind,
                "priority": n["todo_priority"],
                "body": n["body"],
                "line": n["line_no"],
                "zid": n["zid"],
                "create": str(n["create_date"]),
                "modify": str(n["modify_date"]),
                "areas": sorted(tag_of["areas"].get(n["id"], [])),
                "contexts": sorted(tag_of["contexts"].get(n["id"], [])),
                "people": sorted(tag_of["people"].get(n["id"], [])),
                "projects": sorted(tag_of["projects"].get(n["id"], [])),
                "links": sorted(tag_of["links"].get(n["id"], [])),
                "props": dict(sorted(props.get(n["id"], {}).items())),
                "section": path,
                "block": bidx,
            }
            if pg is not None and pg != n["page_path"]:
                problems.append(f"note {n['zid']} page_path {n['page_path']} but its block belongs to {pg}")
            if n["page_path"] not in out_pages:
                problems.append(f"note {n['zid']} of page '{n['page_path']}' has no page row")
            else:
                out_pages[n["page_path"]]["notes"].append(d)
            if n["zid"] is None:
                problems.append(f"note without ZID on {n['page_path']}:{n['line_no']}")
            else:
                zids_seen[n["zid"]] = zids_seen.get(n["zid"], 0) + 1
            flat.append(d)
        for z, c in zids_seen.items():
            if c > 1:
                problems.append(f"ZID {z} on {c} note rows")
        # blocks with no notes are legal only if the file has an empty block; not judged
        for pg in out_pages.values():
            pg["notes"].sort(key=lambda d: (d["line"], d["zid"] or ""))
            pg["sections"].sort(key=lambda p: [x or "" for x in p])
        flat.sort(key=lambda d: (d["page"], d["line"], d["zid"] or ""))
        return {"pages": out_pages, "problems": sorted(set(problems)), "notes": flat}
    finally:
        con.close()
