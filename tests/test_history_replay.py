"""Self-test of the runner's confirmation step: a verdict that depends on what the worker
process evaluated before (state carried between calls) must be confirmed by replaying the
worker's history in a fresh process, and reported as a VIOLATION with that history; a
verdict that cannot be reproduced either way must end as a harness error, never as a
violation.   Run:  ./check-selftest   (or)  PYTHONPATH=/repo/src:/verif /venv/bin/python tests/test_history_replay.py
"""
import io
import contextlib
import sys
import types

from mc.core import framework as F
from mc.core import harness as H
from mc.core import runner as R

SEEN: list = []
FLAKY = [0]


def _mk(mode):
    def run_case(case):
        out = F.Outcome()
        out.obs = H.digest(case)
        out.nontrivial = H.digest(case)
        if mode == "stateful":
            # fails only if case 5 was evaluated earlier in this process
            if case == 37 and 5 in SEEN:
                out.ok, out.sig, out.detail = False, "stale", {"seen": list(SEEN)}
            SEEN.append(case)
        elif mode == "flaky":
            import os
            if case == 37 and os.getpid() % 2 == FLAKY[0]:
                out.ok, out.sig, out.detail = False, "flaky", {}
        return out
    return run_case


def _check(mode):
    ctx = F.Ctx(prop="C99", tier="quick", seed=0, workers=4)
    rc = _mk(mode)
    mod = types.SimpleNamespace(LEVEL="exploration", replay=lambda c, ctx: rc(c))
    rep = F.explore(ctx, list(range(64)), rc)
    meta = {"rule": "selftest", "bounds": {}, "exhaustive": True}
    buf, err = io.StringIO(), io.StringIO()
    with contextlib.redirect_stdout(buf), contextlib.redirect_stderr(err):
        code = R._finish(mod, ctx, rep, meta, 0.0)
    return code, buf.getvalue(), err.getvalue(), rep


def main():
    import os
    import tempfile
    os.environ["VERIF_EVIDENCE_DIR"] = tempfile.mkdtemp(dir="/dev/shm")
    H.preload()
    code, out, err, rep = _check("stateful")
    assert code == 1 and "VIOLATION property=C99" in out, (code, out, err)
    v = rep.violations[0]
    assert v["history"][-1] == 37 and 5 in v["history"], v
    print("stateful verdict: confirmed with history", v["history"])
    # a verdict that depends on the process id parity cannot be reproduced reliably
    import os as _os
    FLAKY[0] = 2  # never fails on replay
    SEEN.clear()

    marker = "/dev/shm/.selftest-flaky-%d" % _os.getpid()

    def rc_once(case, _first=[True]):
        out = F.Outcome()
        out.obs = out.nontrivial = H.digest(case)
        if case == 37 and not _os.path.exists(marker):
            open(marker, "w").close()
            out.ok, out.sig, out.detail = False, "once", {}
        return out

    ctx = F.Ctx(prop="C99", tier="quick", seed=0, workers=4)
    if _os.path.exists(marker):
        _os.unlink(marker)
    mod = types.SimpleNamespace(LEVEL="exploration", replay=lambda c, ctx: rc_once(c))
    rep = F.explore(ctx, list(range(64)), rc_once)
    buf, err = io.StringIO(), io.StringIO()
    with contextlib.redirect_stdout(buf), contextlib.redirect_stderr(err):
        code = R._finish(mod, ctx, rep, {"rule": "selftest", "bounds": {}, "exhaustive": True}, 0.0)
    for p in [marker]:
        if _os.path.exists(p):
            _os.unlink(p)
    assert code == 2 and "VIOLATION" not in buf.getvalue(), (code, buf.getvalue(), err.getvalue())
    print("irreproducible verdict: harness error, no VIOLATION")
    for f in (F.VERIF / "replays").glob("C99-*.json"):
        f.unlink()
    print("OK")


if __name__ == "__main__":
    main()
